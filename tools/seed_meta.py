#!/usr/bin/env python3
"""usage: seed_meta.py <seed-id> <property> <needs-to-manifest text>  -- write seeded/<id>/meta.json after notes/confirm_seed.sh"""
import json, sys, os
sid, pid, need = sys.argv[1], sys.argv[2], sys.argv[3]
d = os.path.join(os.path.dirname(os.path.abspath(__file__)), '..', 'seeded', sid)
log = open(os.path.join(d, 'confirm.log')).read()
suite = [l for l in log.split('\n') if l.startswith('suite:')]
extra = sys.argv[4] if len(sys.argv) > 4 else None
m = {"id": sid, "property": pid, "needs_to_manifest": need,
     "source": "fresh sub-agent given only the property text and its own scratch worktree of /repo",
     "confirmed_by_me": {"how": "notes/confirm_seed.sh in the scratch worktree: full workspace suite with the change (demo excluded), demo with the change, demo with the change reversed",
                         "log": "confirm.log", "suite_with_change": suite[0] if suite else '?'},
     "files": {"patch": "patch.diff", "demonstration": "demo.rs", "agent_notes": "agent-notes.md", "detection": "detect.json (written by tools/seed_run.py)"}}
if extra: m["confirmed_by_me"]["note"] = extra
json.dump(m, open(os.path.join(d, 'meta.json'), 'w'), indent=1)
