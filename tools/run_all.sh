#!/bin/bash
# run every claimed check (quick tier, or $1) on the current /repo tree and validate the evidence files
cd "$(dirname "$0")/.."
TIER=${1:-quick}
rc=0
for p in $(python3 -c "import json; print(' '.join(c['property_id'] for c in json.load(open('MANIFEST.json'))['checks']))"); do
  out=$(./check $p --tier $TIER 2>&1); e=$?
  echo "$out" | tail -1 | sed "s/^/[exit $e] /"
  [ $e -ne 0 ] && { echo "$out" | tail -5; rc=1; }
done
python3-vt - <<'PY'
import json, jsonschema, glob
sch = json.load(open('/root/.vp/EVIDENCE.schema.json'))
man = json.load(open('/verif/MANIFEST.json'))
jsonschema.validate(man, json.load(open('/root/.vp/MANIFEST.schema.json')))
for c in man['checks']:
    e = json.load(open(c['evidence_file'])); jsonschema.validate(e, sch)
    cv = e['coverage']; assert cv['obligations'] == cv['discharged'] > 0, (c['property_id'], cv['obligations'], cv['discharged'])
print('manifest + evidence valid for', len(man['checks']), 'checks')
PY
exit $rc
