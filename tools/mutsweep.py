#!/usr/bin/env python3
"""Operator-mutation sweep (development aid, not a registered check).
usage: mutsweep.py <unit> <repo-rel-file> [-j N] [--max M]
For every comparison / boolean / arithmetic operator of the file (outside comments, attributes and #[cfg(test)] modules) one
mutant is written to a scratch copy under /tmp/ms and the unit is run in dev mode against it. Outcome per mutant:
  VIOLATION <tags>   a tagged clause failed
  UNTAGGED           only untagged obligations failed (the check would say undecided)
  LOST/COMPILE       anchor lost or the generated file rejected (undecided)
  SURVIVED           everything verified (equivalent mutant or blind spot)
Results: /tmp/ms/<unit>-<file>.tsv (nothing is kept under /verif)."""
import sys, os, re, subprocess, shutil, json
from concurrent.futures import ThreadPoolExecutor
ROOT = os.path.dirname(os.path.dirname(os.path.abspath(__file__)))
SWAPS = [(' > ', ' >= '), (' >= ', ' > '), (' < ', ' <= '), (' <= ', ' < '), (' == ', ' != '), (' != ', ' == '), (' && ', ' || '), (' || ', ' && '),
         (' + ', ' - '), (' - ', ' + '), (' * ', ' / '), (' / ', ' * '), (' += ', ' -= '), (' -= ', ' += '), (' *= ', ' /= '), (' /= ', ' *= ')]

def sites(src):
    out = []; lines = src.split('\n'); in_test = False; depth = 0
    for n, l in enumerate(lines):
        st = l.strip()
        if st.startswith('#[cfg(test)]'): in_test = True
        if in_test: continue
        if st.startswith('//') or st.startswith('#[') or st.startswith('use ') or 'format!' in l or '"' in l: continue
        code = l.split('//')[0]
        for a, b in SWAPS:
            start = 0
            while True:
                i = code.find(a, start)
                if i < 0: break
                # skip generics / arrows / lifetimes
                ctx = code[max(0, i - 2):i + len(a) + 2]
                if '->' in ctx or '=>' in ctx or "<'" in ctx or (a.strip() in ('<', '>') and re.search(r'[A-Za-z_]<[A-Z]', code)): start = i + 1; continue
                out.append((n, i, a, b)); start = i + len(a)
    return out

def sites2(src):
    """second family: statement deletion (compound assignments and call statements), continue<->break, .min<->.max, small constants"""
    out = []; lines = src.split('\n'); in_test = False
    for n, l in enumerate(lines):
        st = l.strip()
        if st.startswith('#[cfg(test)]'): in_test = True
        if in_test or st.startswith('//') or st.startswith('#['): continue
        code = l.split('//')[0]
        if re.match(r'^\s*[\w\.\*\[\]]+\s*(\+=|-=|\*=|/=)\s*[^;]+;\s*$', code) or re.match(r'^\s*[\w\.]+\.(push|insert|clear|consume|remove)\([^;]*\);\s*$', code):
            out.append((n, 0, code.rstrip(), ''))            # delete the statement
        for a, b in [('continue;', 'break;'), ('break;', 'continue;'), ('.min(', '.max('), ('.max(', '.min('), ('Decimal::ZERO', 'Decimal::ONE'), ('= 30;', '= 31;'), ('1..=7', '1..=8'), ('1..=7', '0..=7')]:
            i = code.find(a)
            if i >= 0 and '"' not in code: out.append((n, i, a, b))
    return out

def run_one(k, unit, rel, src, site, base):
    n, i, a, b = site
    lines = src.split('\n'); l = lines[n]; lines[n] = l[:i] + b + l[i + len(a):]
    w = f'/tmp/ms/w{k % 64}_{k}'
    shutil.rmtree(w, ignore_errors=True); os.makedirs(w)
    subprocess.run(f'cp -r {base}/crates {w}/ && cp {base}/Cargo.toml {base}/Cargo.lock {w}/', shell=True, check=True)
    open(os.path.join(w, rel), 'w').write('\n'.join(lines))
    env = dict(os.environ, VERIF_REPO=w, VERIF_BUILD=os.path.join(w, 'build'))
    os.makedirs(env['VERIF_BUILD'])
    r = subprocess.run([os.path.join(ROOT, 'check'), '--dev', unit], capture_output=True, text=True, env=env, timeout=900)
    out = r.stdout + r.stderr
    shutil.rmtree(w, ignore_errors=True)
    tags = sorted(set(re.findall(r'=> clause K\d+ \[([^\]]+)\]', out)))
    if 'lost anchor' in out or 'UNSUPPORTED/COMPILE' in out or 'Unsupported' in out: verdict = 'LOST/COMPILE'
    elif any(t != 'support' for t in tags): verdict = 'VIOLATION ' + ';'.join(t for t in tags if t != 'support')
    elif re.search(r'^-- ', out, re.M): verdict = 'UNTAGGED'
    elif re.search(r'verus: verified=\d+ errors=0', out): verdict = 'SURVIVED'
    else: verdict = 'ERROR ' + out[-200:].replace('\n', ' ')
    return (n + 1, a.strip(), b.strip(), src.split('\n')[n].strip()[:90], verdict)

def main():
    unit, rel = sys.argv[1], sys.argv[2]
    j = int(sys.argv[sys.argv.index('-j') + 1]) if '-j' in sys.argv else 5
    mx = int(sys.argv[sys.argv.index('--max') + 1]) if '--max' in sys.argv else 10 ** 6
    base = '/tmp/ms/base'; shutil.rmtree('/tmp/ms', ignore_errors=True); os.makedirs(base)
    subprocess.run(f'git -C /repo archive HEAD crates Cargo.toml Cargo.lock | tar -x -C {base}', shell=True, check=True)
    src = open(os.path.join(base, rel)).read()
    ss = (sites2(src) if '--family2' in sys.argv else sites(src))[:mx]
    print(f'{len(ss)} mutation sites in {rel}', flush=True)
    res = []
    with ThreadPoolExecutor(max_workers=j) as ex:
        futs = [ex.submit(run_one, k, unit, rel, src, s, base) for k, s in enumerate(ss)]
        for f in futs:
            r = f.result(); res.append(r); print('\t'.join(str(x) for x in r), flush=True)
    tsv = f'/tmp/ms{"2" if "--family2" in sys.argv else ""}-{unit}-{os.path.basename(rel)}.tsv'
    open(tsv, 'w').write('\n'.join('\t'.join(str(x) for x in r) for r in res))
    from collections import Counter
    print(Counter(r[4].split(' ')[0] for r in res)); print('results in', tsv)
    shutil.rmtree('/tmp/ms', ignore_errors=True)
main()
