#!/usr/bin/env python3
"""Apply each seeded change under /verif/seeded/<id>/patch.diff to /repo, run the property's quick check, undo it.
Writes seeded/<id>/detect.json. Never leaves /repo modified."""
import json, os, subprocess, sys, glob
ROOT = os.path.dirname(os.path.dirname(os.path.abspath(__file__)))
def sh(cmd, **kw): return subprocess.run(cmd, shell=True, capture_output=True, text=True, **kw)
ids = sys.argv[1:] or sorted(os.path.basename(os.path.dirname(p)) for p in glob.glob(os.path.join(ROOT, 'seeded', '*', 'patch.diff')))
assert sh('git -C /repo status --porcelain').stdout.strip() == '', '/repo not clean'
for i in ids:
    d = os.path.join(ROOT, 'seeded', i)
    meta = json.load(open(os.path.join(d, 'meta.json'))) if os.path.exists(os.path.join(d, 'meta.json')) else {}
    prop = meta.get('property', i[:3])
    evf = os.path.join(ROOT, 'evidence', prop + '.json'); saved = open(evf).read() if os.path.exists(evf) else None
    a = sh(f'git -C /repo apply {d}/patch.diff')
    if a.returncode != 0:
        print(i, 'patch does not apply:', a.stderr[:200]); continue
    try:
        r = sh(f'./check {prop} --tier quick', cwd=ROOT)
    finally:
        sh('git -C /repo checkout -- .')
        if saved is not None: open(evf, 'w').write(saved)   # evidence must describe the unchanged tree
    lines = [l for l in r.stdout.split('\n') if l.startswith(('VIOLATION', 'obligation', 'UNDECIDED', prop + ':'))]
    res = {'seed': i, 'property': prop, 'cmd': f'./check {prop} --tier quick', 'exit': r.returncode,
           'verdict': {0: 'MISSED (check passed)', 1: 'DETECTED (VIOLATION)', 2: 'UNDECIDED (no alarm, no pass)'}.get(r.returncode, str(r.returncode)), 'lines': lines[:8]}
    json.dump(res, open(os.path.join(d, 'detect.json'), 'w'), indent=1)
    print(i, prop, res['verdict'], '|', (lines[0][:150] if lines else ''))
assert sh('git -C /repo status --porcelain').stdout.strip() == ''
