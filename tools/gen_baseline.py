#!/usr/bin/env python3
"""Write contracts/baseline.json: per unit, the functions of the extracted text that have no entry in the contract file on the
unchanged tree (derived Clone/PartialEq/Default, spec functions of raw blocks, helpers whose callers verify without knowing them).
A function that is neither contracted nor listed here is *new* to the contracts: a failed obligation in one of its callers is
reported as undecided ("needs contract"), not as a violation.  Run on the unchanged tree after editing contracts."""
import sys, os, json, tempfile
ROOT = os.path.dirname(os.path.dirname(os.path.abspath(__file__)))
sys.path.insert(0, ROOT)
from vf import main as M, unit as U
out = {}
with tempfile.TemporaryDirectory() as td:
    for u in M.load_units():
        gen = U.build(u, td)
        out[u.name] = M.uncontracted(u, gen)
json.dump(out, open(os.path.join(ROOT, 'contracts', 'baseline.json'), 'w'), indent=1)
print({k: len(v) for k, v in out.items()})
