#!/usr/bin/env python3
"""Print the markdown table of seeded changes (seeded/*/meta.json + detect.json) for DESIGN.md 12.7."""
import json, os, glob
ROOT = os.path.dirname(os.path.dirname(os.path.abspath(__file__)))
rows = []; tot = {}
for d in sorted(glob.glob(os.path.join(ROOT, 'seeded', '*'))):
    mp, dp = os.path.join(d, 'meta.json'), os.path.join(d, 'detect.json')
    if not os.path.exists(mp): continue
    m = json.load(open(mp)); det = json.load(open(dp)) if os.path.exists(dp) else {}
    v = det.get('verdict', 'not run')
    kind = 'VIOLATION' if 'VIOLATION' in v else ('undecided' if 'UNDECIDED' in v else ('MISSED' if 'MISSED' in v else v))
    tot[kind] = tot.get(kind, 0) + 1
    why = ''
    for l in det.get('lines', []):
        if l.startswith('VIOLATION') or l.startswith('UNDECIDED') or 'obligation' in l: why = l; break
    if kind == 'VIOLATION':
        ob = [l for l in det.get('lines', []) if l.startswith('obligation') or ' obligation ' in l]
        why = (ob[0] if ob else why)
    why = why.replace('|', '/')[:230]
    rows.append(f"| {m['id']} | {m['property']} | {m['needs_to_manifest'].replace('|', '/')} | **{kind}** | {why} |")
print('| seed | property | change / what it needs to manifest | result | first line of the check |')
print('|---|---|---|---|---|')
print('\n'.join(rows))
print()
print('Totals: ' + ', '.join(f'{k} {v}' for k, v in sorted(tot.items())) + f' (of {len(rows)} confirmed seeds).')
