#!/usr/bin/env python3
"""Regenerate MANIFEST.json from the table below (claimed properties, level text, notes)."""
import json, os
ROOT = os.path.dirname(os.path.dirname(os.path.abspath(__file__)))
CLAIMS = {
 'C01': ('Verus: contracts on the real text of same_day, bed_and_breakfast, section104, acquisition_ledger, process_sell (rule order, leg quantities, window 0<days<=30, weighted same-day cost, pool average cost, per-look-ahead reservations, claim ledger); Kani: the two day-difference tests accept exactly 1..=30 (complete over i64), thorough tier adds the calendar part on the real chrono.',
         'Unbounded in ledger length and iteration count; relative to A-dec (exact decimals), A-date, A-map. The day loop is proved to add the day\'s purchases before its sales, to pool after the sales and to leave nothing of earlier days unallocated (L2: inv_lots, day order, pooling); SAME DAY RULE IN FULL (C01.sameday_first, INV_RES closed): for every (date, security) the Same Day legs Matcher::process returns add up to min(shares sold that day, shares bought that day) of the caller\'s list - each day\'s disposal is identified first with that day\'s acquisitions, whatever earlier disposals claimed under the 30-day rule: the look-ahead keeps claims_on(day) <= max(0, bought - sold that day) (inv_res, carried by the per-look-ahead reservation counter res_left == max(day\'s disposals - unclaimed shares seen, 0)), so at least min(bought, sold) of the day\'s purchases is still available when the day arrives, and the day\'s sales take it first. NOTHING SKIPPED (INV_LEGS closed): Matcher::process returns, for every (disposal date, security), legs whose quantities add up to exactly the shares the caller\'s list sells of that security on that date (through the sort/merge of preprocess, whose per-day totals are proved order- and fill-split-independent, and through every SELL line of the day loop). NOTHING SKIPPED IN THE WINDOW (C01.window_full): if part of a sale is still unmatched after its look-ahead, every day x with 0 < x - D <= 30 has given all the rule allows - its purchases not already claimed less what day x needs for its own disposals (claims_on grows by exactly max(unclaimed - day\'s disposals, 0)); the day-30 edge is therefore decided by Verus as well as by Kani. Not decided: and equality with an independent whole-ledger evaluation are not decided.'),
 'C02': ('Verus: every lot operation preserves wf_lot (consumed+reserved+in_pool<=original, all >=0) and moves exactly the reported amount; legs of a sale sum to its quantity (process_sell: Ok => sum == amount); claims against a purchase never exceed it (fc_capped through the look-ahead and the day loop); pool quantity updates on pooling / S104 / SPLIT / UNSPLIT.',
         'Step-wise conservation proved for all inputs; END-TO-END for the first sentence (C02.leg_sum.total, INV_LEGS): the legs Matcher::process returns for a (date, security) add up to the quantity the input sells that day, for every ledger it accepts. CLOSING HOLDING (INV_POS closed, C02.closing): Matcher::process carries, for every security and through every loop of the day cycle, pool + what is still available of the day\'s purchases == position + shares already disposed of under the 30-day rule whose purchases are still to come, where the position is acquisitions - disposals rescaled by the splits that have taken effect (a fold over the date-ordered line list, net_total) and the pending shares are the claims converted by the composition of the splits between now and the purchase (pend/gfac; key lemma: the look-ahead\'s own factor split_factor equals that composition). At the end nothing is pending and nothing unallocated, so the returned Section 104 quantity of every security EQUALS its position. Stated over the sorted-and-merged list (per-(date, security, side) share totals proved equal to the input\'s; that SPLIT lines pass through preprocess unchanged is not proved). A-dec.'),
 'C03': ('Verus: one unit cost per lot used by same-day, 30-day and pooling; same-day legs consume lots proportionally so leg cost == sum(consumed_k * unit_k); pooled cost == cost of exactly the shares marked in_pool; S104 leg cost leaves the pool; capital-return/accumulation offsets sum to exactly the adjustment.',
         'END-TO-END (INV_COST closed): Matcher::process carries, through every loop of the day cycle and for every security, legs + pool + unallocated - pending 30-day claims == cost of all lots, with every lot equal to its BUY line incl. its capital-return offset (inv_lots); at the end nothing is unallocated and no claim is pending, so cost of all legs + closing pool cost == sum over the lots of quantity x unit cost. Relative to the PREPROCESSED list (that same-day merging conserves shares, consideration and fees per (date, security, side) is proved separately: C04.merge), to quantity x unit cost == quantity x price + fees + offset (false only for a zero-quantity BUY with fees, whose fees the tool drops), and to A-dec (28-digit rounding of * and / is not modelled). That every BUY has exactly one lot is proved per day (buys_added_all), not yet as a global bijection.'),
 'C05': ('Verus: (sound direction, END-TO-END) Matcher::process carries, per security, acquisitions less disposals to date rescaled by the splits that have taken effect (spec net_state/net_total, a fold over the date-ordered line list) and returns Ok only if that position is non-negative at the close of every day (covered_upto) - so a report is produced only when every sale is covered, whatever the 30-day rule matched (repair 364008a of defect F2). process_sell returns Err before any state change when the sale exceeds same-day availability + pool quantity; legs of an accepted sale sum to the quantity sold; an Err from conversion or from the matcher means no report (calculate).',
         'Completeness direction (covered ledgers are never refused, C05.complete), per refusal site of the matcher after the cost pre-pass: process_sell returns Ok whenever the sale is covered by same-day ledger + pool (no unmatched remainder is possible then); in Matcher::process a covered ledger (covered_upto over the whole list) makes every sale pass that check (INV_POS: same-day ledger + pool >= position >= quantity sold) and never trips the position check of repair 364008a; the reservation-overflow refusal is unreachable for every ledger; pooling and corporate actions never refuse. These are site-wise obligations, not one post-condition of process: the refusals of the pre-pass (non-positive split ratio, capital return larger than the cost - the statement\'s other obstacles) are not characterised. C05.sound is stated over the sorted-and-merged list preprocess returns (its per-(date, security, side) share totals are proved equal to the input\'s; that SPLIT lines pass through unchanged is not proved). CLI/MCP front-ends are A-ext.'),
 'C09': ('Verus frame clauses: every mutating matcher function changes ledgers/pools only at the transaction\'s own ticker; the look-ahead changes claims only at same-ticker buys in the window.',
         'Frames of each step, plus the L3 corollaries C09.l3_quantities (total and Same Day leg quantity of a security per day are unchanged by inserting or removing lines of another security) and C09.l3_holding (so is its position, i.e. the closing Section 104 quantity that C02.closing proves the matcher returns - a simulation lemma between the folds over the two lists); the full projection equality report(all) = (+) report(S) is not machine-checked; ticker case folding in parser/serde is A-ext.'),
 'C10': ('Verus: SPLIT multiplies and UNSPLIT divides the pool quantity only (cost, ledgers, legs, other tickers untouched); look-ahead quantities are rescaled by the cumulative ratio of the splits dated from the disposal day up to, not including, the acquisition\'s day (repairs 218dd93 and 551d6d1) and costed in buy-time units.',
         'Per-step, plus the day loop of Matcher::process is proved to apply every SPLIT/UNSPLIT line of the day to the pool of its own security, in line order, after the day\'s sales and pooling (C10.applied: pool quantity == fold of ratio_effect over the day\'s lines); the rescaled-twin equivalence is relational (not decided); the pre-pass (compute_cost_offsets) has no split handling: see DESIGN F6.'),
 'C12': ('Verus: the 30-day look-ahead changes claims only at same-ticker purchases dated 1..30 days after the sale (fc_step), and stops reading at the first line beyond day 30; Kani: the break test fires only beyond day 30; the single-year window of the report selects exactly the dates of its tax year, so a later-dated disposal never enters an earlier year (C12.year_window: Kani harness and the Verus slice clauses shared with C07).',
         'L3 corollary C12.l3_quantities: appending lines dated after day x leaves total and Same Day leg quantity of day x unchanged (lemma over the proved characterisations). The full extension lemma (every leg, cost and gain of the prefix report unchanged by a suffix) is not machine-checked; a later capital return does change the cost of an earlier 30-day leg by design of the pre-pass.'),
 'C15': ('Verus proves, for every function of the matcher unit, absence of Decimal division by zero, out-of-bounds indexing, integer overflow and non-termination (each function is one implicit obligation), given parser-valid input; the validator flags a ledger iff some line carries a non-positive quantity or a negative price/fee (C15.validator); the JSON path rejects an operation iff a quantity it carries or a split ratio is not positive (C15.json_valid: validate_operation / validate_positive / validate_positive_ratio, the checks behind the MCP tools and JSON ledgers).',
         'Decimal overflow panics are outside A-dec (recorded as F4); parser, CLI, PDF, MCP effects are A-ext.'),
}
KANI_PROPS = {'C01', 'C07', 'C12', 'C19'}
NA = [
 ('C13', 'lexical behaviour of the pest grammar / pest_consume macro output: no function contract within reach of Verus or Kani expresses it (DESIGN 7)'),
 ('C14', 'DSL/JSON round trip is format!/Display + pest + serde over rust_decimal\'s 96-bit code; outside both verifiers\' reach (DESIGN 7)'),
 ('C20', 'concurrency/liveness/session-history property of tokio + rmcp; Kani has no async/threads, Verus would need the runtime\'s permission model (DESIGN 7)'),
]
def main():
    extra = {}
    p = os.path.join(ROOT, 'tools', 'claims_extra.json')
    if os.path.exists(p): extra = json.load(open(p))
    claims = dict(CLAIMS); claims.update({k: tuple(v) for k, v in extra.get('claims', {}).items()})
    na = [x for x in NA] + [tuple(x) for x in extra.get('na', [])]
    checks = []
    for pid in sorted(claims):
        text, note = claims[pid]
        checks.append({
            'property_id': pid,
            'quick_cmd': f'./check {pid} --tier quick',
            'thorough_cmd': f'./check {pid} --tier thorough',
            'evidence_file': f'/verif/evidence/{pid}.json',
            'replay_cmd_template': f'./check {pid} --replay {{path}}',
            'engine': 'contracts',
            'level_claimed': {'category': 'proof', 'text': text, 'design_ref': 'DESIGN.md 6'},
            'level_note': note,
            'technique': 'contract-based deductive verification: Verus requires/ensures/invariants spliced into functions extracted from /repo on every run' + ('; Kani loop-free full-domain harnesses for calendar code' if pid in KANI_PROPS else '') + ('; thorough tier: bounded Kani checks (labelled bounded) of the decimal rounding axiom on the real rust_decimal' if pid == 'C17' else ''),
        })
    claimed = set(claims)
    all_ids = ['C%02d' % i for i in range(1, 21)]
    na_ids = {x[0] for x in na}
    for i in all_ids:
        if i not in claimed and i not in na_ids:
            na.append((i, 'not yet claimed: contracts for this property are still being written (see DESIGN 6)'))
    m = {
        'version': 1,
        'setup_cmd': './check --setup',
        'hooks': {'guard': 'velikodniy_cgt_tool_verif', 'enable': 'none needed: the checks read /repo source text (Verus) and public APIs plus extracted expressions (Kani); no hook commit exists',
                  'baseline_off_cmd': 'cd /repo && cargo test --workspace --no-fail-fast --offline', 'source_commits': [], 'add_only': True},
        'engines': [{'name': 'contracts', 'path': '/verif/check', 'serves_properties': sorted(claimed), 'kind_free_text': 'python3 extractor + Verus 0.2026.09.13 (single-file) + Kani 0.68 harness crate /verif/kani'}],
        'checks': checks,
        'notes': 'Fixes committed to /repo (see known-findings.json): 64deb08 (F1, C01), 5138c74 (F3, C15), d5f0171 (F9, C17), 218dd93 (F13, C10), 551d6d1 (F14, C02), 364008a (F2, C05). Exit 2 from a check means undecided (lost anchor, unsupported construct, resource limit): never an alarm.',
        'not_applicable': [{'property_id': a, 'reason': b} for a, b in sorted(na)],
    }
    json.dump(m, open(os.path.join(ROOT, 'MANIFEST.json'), 'w'), indent=1)
    print('claimed:', sorted(claimed)); print('n/a:', sorted(x[0] for x in na))
main()
