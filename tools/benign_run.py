#!/usr/bin/env python3
"""False-alarm self-test (development aid, not a registered check).
usage: benign_run.py <dir-with-*.diff> [props...]
Each patch is a behaviour-preserving change to /repo's sources (produced by a fresh sub-agent in its own worktree; the existing
suite passes with it).  For each patch: scratch copy of /repo HEAD under /tmp/bn, apply, run every claimed quick check against the
copy (VERIF_REPO / private VERIF_BUILD), record the exit codes.  Expected: 0 (held) or 2 (undecided: lost anchor / unsupported
construct); an exit 1 is a false alarm and must be repaired in the machinery.  Writes <dir>/results.json; evidence files are
restored afterwards (they must describe the unchanged tree)."""
import sys, os, json, glob, subprocess, shutil
from concurrent.futures import ThreadPoolExecutor
ROOT = os.path.dirname(os.path.dirname(os.path.abspath(__file__)))
d = os.path.abspath(sys.argv[1])
man = json.load(open(os.path.join(ROOT, 'MANIFEST.json')))
props = sys.argv[2:] or [c['property_id'] for c in man['checks']]
sys.path.insert(0, ROOT)
from vf import main as M, kani as K
import re
FILES = {}        # property -> repo files its units read
for u in M.load_units():
    fs = set(re.findall(r'^module\s+\S+\s+from\s+(\S+)', open(os.path.join(ROOT, 'contracts', u.name + '.vc')).read(), re.M))
    for p in M.unit_props(u): FILES.setdefault(p, set()).update(fs)
for p in K.PROP_HARNESSES:   # files the Kani extraction and harnesses read
    FILES.setdefault(p, set()).update({'crates/cgt-core/src/calculator.rs', 'crates/cgt-mcp/src/server.rs', 'crates/cgt-core/src/matcher/bed_and_breakfast.rs', 'crates/cgt-core/src/models.rs'})
KANI = [p for p in props if p in ('C07', 'C11', 'C12')]       # share /verif/kani: run one after the other
REST = [p for p in props if p not in KANI]

def run_prop(w, p):
    env = dict(os.environ, VERIF_REPO=w, VERIF_BUILD=os.path.join(w, 'build-' + p))
    os.makedirs(env['VERIF_BUILD'], exist_ok=True)
    r = subprocess.run([os.path.join(ROOT, 'check'), p, '--tier', 'quick'], capture_output=True, text=True, env=env, cwd=ROOT)
    lines = [l for l in r.stdout.split('\n') if l.startswith(('VIOLATION', 'obligation', 'UNDECIDED', p + ':'))]
    return p, r.returncode, lines[:4]

def run_unit_dev(w, u):
    """one Verus run of the unit against the scratch copy: 'ok' (all verified), 'lost' (anchor lost / construct unsupported: undecided) or 'errors'"""
    env = dict(os.environ, VERIF_REPO=w, VERIF_BUILD=os.path.join(w, 'build-' + u))
    os.makedirs(env['VERIF_BUILD'], exist_ok=True)
    r = subprocess.run([os.path.join(ROOT, 'check'), '--dev', u], capture_output=True, text=True, env=env, cwd=ROOT)
    out = '\n'.join(l for l in (r.stdout + r.stderr).split('\n') if 'conda' not in l)
    m = re.search(r'verus: verified=(\d+) errors=(\d+)', out)
    if m and m.group(2) == '0' and 'UNSUPPORTED' not in out and 'lost anchor' not in out: return u, 'ok', m.group(0)
    if m and int(m.group(2)) > 0: return u, 'errors', out[:1500]
    return u, 'lost', out[-700:]

UFILES = {}
for u in M.load_units():
    UFILES[u.name] = set(re.findall(r'^module\s+\S+\s+from\s+(\S+)', open(os.path.join(ROOT, 'contracts', u.name + '.vc')).read(), re.M))
KFILES = {'crates/cgt-core/src/calculator.rs', 'crates/cgt-mcp/src/server.rs', 'crates/cgt-core/src/matcher/bed_and_breakfast.rs', 'crates/cgt-core/src/models.rs'}
results = {}
for pf in sorted(glob.glob(os.path.join(d, '*.diff'))):
    name = os.path.basename(pf)
    w = '/tmp/bn/' + os.path.basename(d)
    shutil.rmtree(w, ignore_errors=True); os.makedirs(w)
    subprocess.run(f'git -C /repo archive HEAD | tar -x -C {w}', shell=True, check=True)
    a = subprocess.run(f'cd {w} && patch -p1 -s < {pf}', shell=True, capture_output=True, text=True)
    if a.returncode != 0:
        results[name] = {'error': 'patch does not apply: ' + a.stdout[:200]}; print(name, 'DOES NOT APPLY'); continue
    touched = set(re.findall(r'^\+\+\+ b/(\S+)', open(pf).read(), re.M))
    units = [u for u, fs in UFILES.items() if fs & touched]
    res = {'touched': sorted(touched), 'units': {}, 'checks': {}}
    with ThreadPoolExecutor(max_workers=8) as ex:
        for u, st, txt in ex.map(lambda u: run_unit_dev(w, u), units): res['units'][u] = {'status': st, 'detail': txt}
    # full property checks (real exit codes) where a unit reported errors, and for the Kani-backed properties when their files are touched
    follow = set()
    for u, v in res['units'].items():
        if v['status'] == 'errors': follow.update(p for p in M.unit_props([x for x in M.load_units() if x.name == u][0]) if p in props)
    if touched & KFILES and not os.environ.get('BENIGN_NO_KANI'): follow.update(p for p in ('C07', 'C12') if p in props)
    for p in sorted(follow):
        _, e, l = run_prop(w, p); res['checks'][p] = {'exit': e, 'lines': l}
    results[name] = res
    bad = [p for p, v in res['checks'].items() if v['exit'] == 1]
    print(name, ' '.join(f"{u}:{v['status']}" for u, v in res['units'].items()), '|', ' '.join(f"{p}:exit{v['exit']}" for p, v in res['checks'].items()), '| FALSE-ALARM ' + ','.join(bad) if bad else '', flush=True)
    json.dump(results, open(os.path.join(d, 'results.json'), 'w'), indent=1)
shutil.rmtree('/tmp/bn/' + os.path.basename(d), ignore_errors=True)
subprocess.run('git checkout -- evidence kani/Cargo.toml kani/src/extracted.rs', shell=True, cwd=ROOT)
