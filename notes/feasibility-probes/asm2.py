import re,sys
sys.argv=['x']
src=open('asm.py').read()
pre=src.split("shim=open('shim.rs')")[0]
g='def grab'+src.split('def grab')[1].split('types=')[0]
exec(pre); exec(g)
M=R+'matcher/'
shim=open('shim.rs').read()+open('shim2.rs').read()
models=open(R+'models.rs').read()
types='\n'.join(grab(models,p) for p in [r'pub struct GbpTransaction',r'pub enum Operation<M: Default>',r'pub struct Section104Holding',r'pub enum MatchRule',r'pub struct Match \{'])
types=strip(types,False)
err='''
pub enum CgtError { InvalidTransaction(String), InvalidDateYear { year: i32 }, InvalidTaxYear(u16), UnsupportedExemptionYear(u16), MissingFxRate { currency: String, year: i32, month: u32 }, ConfigError(String) }
#[verifier::external_body]
pub fn verif_fmt() -> String { unimplemented!() }
#[verifier::external_body]
pub fn string_clone(s: &String) -> (r: String) ensures r@ == s@ { s.clone() }
'''
modrs=open(M+'mod.rs').read()
pieces=[grab(modrs,r'pub struct MatchResult'),grab(modrs,r'pub\(crate\) struct ProportionalProceeds'),grab(modrs,r'pub\(crate\) fn compute_proceeds'),grab(modrs,r'pub struct Matcher')]
impl='impl Matcher {\n'+grab(modrs,r'pub\(super\) fn get_ledger_mut')+'\n'+grab(modrs,r'pub\(super\) fn get_pool_mut')+'\n}\n'
s104=strip(open(M+'section104.rs').read())
s104=re.sub(r'#\[derive[^\n]*\n','',s104)
al=fmt_rewrite(strip(open(M+'acquisition_ledger.rs').read()))
al=re.sub(r'#\[derive[^\n]*\n','',al)
al=al.replace("pub struct AcquisitionLedger {","pub struct AcquisitionLedger {")
body='\n'.join(pieces)+impl
body=re.sub(r'#\[derive[^\n]*\n','',body)
types=re.sub(r'#\[derive[^\n]*\n','',types)
out=shim+err+types+'\npub mod matcher {\nuse super::*;\npub mod acquisition_ledger { use super::*;\n'+al+'\n}\nuse acquisition_ledger::*;\n'+body+'\npub mod section104 { use super::*;\n'+s104+'\n}\n}\n} // verus!\nfn main(){}\n'
out=out.replace("sell_tx.ticker.clone()","string_clone(&sell_tx.ticker)")
open('t12.rs','w').write(out)
body=open('t12.rs').read()
body=body.replace("""        self.lots
            .iter()
            .filter(|lot| lot.date == date)
            .map(|lot| lot.available())
            .sum()""","""        { let mut __acc = Decimal::ZERO; for lot in self.lots.iter() { if lot.date == date { __acc = __acc + lot.available(); } } __acc }""")
body=body.replace("""let total_held: Decimal = self.lots.iter().map(|lot| lot.held_for_adjustment()).sum();""","""let total_held: Decimal = { let mut __acc = Decimal::ZERO; for lot in self.lots.iter() { __acc = __acc + lot.held_for_adjustment(); } __acc };""")
body=body.replace("""        self.lots
            .iter()
            .filter(|lot| lot.held_for_adjustment() > Decimal::ZERO)
            .map(|lot| lot.adjusted_cost())
            .sum()""","""        { let mut __acc = Decimal::ZERO; for lot in self.lots.iter() { if lot.held_for_adjustment() > Decimal::ZERO { __acc = __acc + lot.adjusted_cost(); } } __acc }""")
body=body.replace("for (idx, lot) in self.lots.iter().enumerate() {","for idx in 0..self.lots.len() { let lot = &self.lots[idx];")
body=body.replace("for (pos, (idx, available)) in lots_on_date.iter().enumerate() {","for pos in 0..lots_on_date.len() { let (idx, available) = &lots_on_date[pos];")
body=body.replace("for lot in &mut self.lots {","for lot in self.lots.iter_mut() {")
open('t12.rs','w').write(body)
