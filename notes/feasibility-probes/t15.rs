use vstd::prelude::*;
verus! {
pub struct D { pub q: u64, pub ms: Vec<u64> }
pub fn tot(ds: &[D]) -> u64 {
    let mut n = 0u64;
    for d in ds {
        for m in d.ms.iter() { if n < 100 && *m < 100 { n += *m; } }
    }
    n
}
pub fn by_value(v: Vec<(u16, Vec<u64>)>) -> Vec<u64> {
    let mut out: Vec<u64> = Vec::new();
    for (year, ms) in v {
        let l = ms.len() as u64;
        out.push(l);
    }
    out
}
pub fn clos(v: &Vec<u64>, k: u64) -> Option<u64> {
    let o = v.get(0);
    o.map(|x| if *x < 100 { *x + 1 } else { k })
}
}
fn main() {}
