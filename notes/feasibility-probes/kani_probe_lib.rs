#[cfg(kani)]
mod proofs {
    use cgt_core::TaxPeriod;
    use chrono::{Datelike, NaiveDate};

    fn any_date() -> NaiveDate {
        let y: i32 = kani::any();
        let o: u32 = kani::any();
        kani::assume(y >= 1800 && y <= 2200);
        kani::assume(o >= 1 && o <= 366);
        let d = NaiveDate::from_yo_opt(y, o);
        kani::assume(d.is_some());
        d.unwrap()
    }

    #[kani::proof]
    fn chrono_only() {
        let d = any_date();
        let b = NaiveDate::from_ymd_opt(d.year(), 4, 6);
        assert!(b.is_some());
        let b = b.unwrap();
        let (m, dd) = (d.month(), d.day());
        assert!((d < b) == (m < 4 || (m == 4 && dd < 6)));
    }

    #[kani::proof]
    fn from_date_correct() {
        let d = any_date();
        let (y, m, dd) = (d.year(), d.month(), d.day());
        let expect = if m < 4 || (m == 4 && dd < 6) { y - 1 } else { y };
        let r = TaxPeriod::from_date(d);
        match &r {
            Ok(p) => {
                assert!(expect >= 1900 && expect <= 2100);
                assert!(p.start_year() as i32 == expect);
            }
            Err(_) => assert!(expect < 1900 || expect > 2100),
        }
        std::mem::forget(r);
    }
}
#[cfg(kani)]
mod proofs2 {
    use cgt_core::matcher::Matcher;
    use cgt_core::{GbpTransaction, Operation};
    use chrono::NaiveDate;
    use rust_decimal::Decimal;

    #[kani::proof]
    #[kani::unwind(4)]
    fn dec_mul_div() {
        let a: u8 = kani::any();
        let b: u8 = kani::any();
        kani::assume(b > 0);
        let x = Decimal::from(a) * Decimal::from(b);
        let y = x / Decimal::from(b);
        assert!(y == Decimal::from(a));
        std::mem::forget((x, y));
    }
}
