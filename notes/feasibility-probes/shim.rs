use vstd::prelude::*;
use vstd::std_specs::ops::*;
use vstd::std_specs::cmp::*;
verus! {

// ---------- Decimal shim: exact real arithmetic ----------
#[verifier::external_body]
pub struct Decimal { _p: u8 }
impl Decimal {
    pub uninterp spec fn v(&self) -> real;
    #[verifier::external_body]
    pub exec const ZERO: Decimal ensures Self::ZERO.v() == 0real { unimplemented!() }
    #[verifier::external_body]
    pub exec const ONE: Decimal ensures Self::ONE.v() == 1real { unimplemented!() }
    #[verifier::external_body]
    pub fn min(self, o: Decimal) -> (r: Decimal)
        ensures r.v() == (if self.v() <= o.v() { self.v() } else { o.v() })
    { unimplemented!() }
    #[verifier::external_body]
    pub fn max(self, o: Decimal) -> (r: Decimal)
        ensures r.v() == (if self.v() >= o.v() { self.v() } else { o.v() })
    { unimplemented!() }
}
#[verifier::external_body]
pub const fn dec_zero() -> (r: Decimal) ensures r.v() == 0real { unimplemented!() }
#[verifier::external_body]
pub const fn dec_one() -> (r: Decimal) ensures r.v() == 1real { unimplemented!() }

impl Copy for Decimal {}
impl Clone for Decimal {
    #[verifier::external_body]
    fn clone(&self) -> (r: Self) ensures r == *self { *self }
}
pub broadcast axiom fn dec_ext(a: Decimal, b: Decimal)
    ensures #[trigger] a.v() == #[trigger] b.v() ==> a == b;

impl AddSpecImpl for Decimal {
    open spec fn obeys_add_spec() -> bool { false }
    open spec fn add_req(self, rhs: Decimal) -> bool { true }
    uninterp spec fn add_spec(self, rhs: Decimal) -> Decimal;
}
impl core::ops::Add for Decimal { type Output = Decimal;
    #[verifier::external_body]
    fn add(self, rhs: Decimal) -> (r: Decimal) ensures r.v() == self.v() + rhs.v() { unimplemented!() } }
impl SubSpecImpl for Decimal {
    open spec fn obeys_sub_spec() -> bool { false }
    open spec fn sub_req(self, rhs: Decimal) -> bool { true }
    uninterp spec fn sub_spec(self, rhs: Decimal) -> Decimal;
}
impl core::ops::Sub for Decimal { type Output = Decimal;
    #[verifier::external_body]
    fn sub(self, rhs: Decimal) -> (r: Decimal) ensures r.v() == self.v() - rhs.v() { unimplemented!() } }
impl MulSpecImpl for Decimal {
    open spec fn obeys_mul_spec() -> bool { false }
    open spec fn mul_req(self, rhs: Decimal) -> bool { true }
    uninterp spec fn mul_spec(self, rhs: Decimal) -> Decimal;
}
impl core::ops::Mul for Decimal { type Output = Decimal;
    #[verifier::external_body]
    fn mul(self, rhs: Decimal) -> (r: Decimal) ensures r.v() == self.v() * rhs.v() { unimplemented!() } }
impl DivSpecImpl for Decimal {
    open spec fn obeys_div_spec() -> bool { false }
    open spec fn div_req(self, rhs: Decimal) -> bool { rhs.v() != 0real }
    uninterp spec fn div_spec(self, rhs: Decimal) -> Decimal;
}
impl core::ops::Div for Decimal { type Output = Decimal;
    #[verifier::external_body]
    fn div(self, rhs: Decimal) -> (r: Decimal) ensures r.v() == self.v() / rhs.v() { unimplemented!() } }

impl AddAssignSpecImpl for Decimal {
    open spec fn obeys_add_assign_spec() -> bool { false }
    open spec fn add_assign_req(self, rhs: Decimal) -> bool { true }
    uninterp spec fn add_assign_spec(self, rhs: Decimal) -> Decimal;
}
impl core::ops::AddAssign for Decimal {
    #[verifier::external_body]
    fn add_assign(&mut self, rhs: Decimal) ensures final(self).v() == old(self).v() + rhs.v() { unimplemented!() } }
impl SubAssignSpecImpl for Decimal {
    open spec fn obeys_sub_assign_spec() -> bool { false }
    open spec fn sub_assign_req(self, rhs: Decimal) -> bool { true }
    uninterp spec fn sub_assign_spec(self, rhs: Decimal) -> Decimal;
}
impl core::ops::SubAssign for Decimal {
    #[verifier::external_body]
    fn sub_assign(&mut self, rhs: Decimal) ensures final(self).v() == old(self).v() - rhs.v() { unimplemented!() } }

impl PartialEqSpecImpl for Decimal {
    open spec fn obeys_eq_spec() -> bool { true }
    open spec fn eq_spec(&self, other: &Decimal) -> bool { self.v() == other.v() }
}
impl PartialEq for Decimal {
    #[verifier::external_body]
    fn eq(&self, other: &Decimal) -> (r: bool) ensures r == (self.v() == other.v()) { unimplemented!() } }
impl Eq for Decimal {}
impl PartialOrdSpecImpl for Decimal {
    open spec fn obeys_partial_cmp_spec() -> bool { true }
    open spec fn partial_cmp_spec(&self, other: &Decimal) -> Option<core::cmp::Ordering> {
        if self.v() < other.v() { Some(core::cmp::Ordering::Less) }
        else if self.v() == other.v() { Some(core::cmp::Ordering::Equal) }
        else { Some(core::cmp::Ordering::Greater) }
    }
}
impl PartialOrd for Decimal {
    #[verifier::external_body]
    fn partial_cmp(&self, other: &Decimal) -> (r: Option<core::cmp::Ordering>) 
      ensures r == (if self.v() < other.v() { Some(core::cmp::Ordering::Less) }
        else if self.v() == other.v() { Some(core::cmp::Ordering::Equal) }
        else { Some(core::cmp::Ordering::Greater) })
    { unimplemented!() } }

// ---------- NaiveDate shim: day number ----------
#[verifier::external_body]
pub struct NaiveDate { _p: u8 }
impl NaiveDate { pub uninterp spec fn d(&self) -> int; }
impl Copy for NaiveDate {}
impl Clone for NaiveDate {
    #[verifier::external_body]
    fn clone(&self) -> (r: Self) ensures r == *self { *self }
}
impl PartialEqSpecImpl for NaiveDate {
    open spec fn obeys_eq_spec() -> bool { true }
    open spec fn eq_spec(&self, other: &NaiveDate) -> bool { self.d() == other.d() }
}
impl PartialEq for NaiveDate {
    #[verifier::external_body]
    fn eq(&self, other: &NaiveDate) -> (r: bool) ensures r == (self.d() == other.d()) { unimplemented!() } }
impl Eq for NaiveDate {}
impl PartialOrdSpecImpl for NaiveDate {
    open spec fn obeys_partial_cmp_spec() -> bool { true }
    open spec fn partial_cmp_spec(&self, other: &NaiveDate) -> Option<core::cmp::Ordering> {
        if self.d() < other.d() { Some(core::cmp::Ordering::Less) }
        else if self.d() == other.d() { Some(core::cmp::Ordering::Equal) }
        else { Some(core::cmp::Ordering::Greater) }
    }
}
impl PartialOrd for NaiveDate {
    #[verifier::external_body]
    fn partial_cmp(&self, other: &NaiveDate) -> (r: Option<core::cmp::Ordering>) 
      ensures r == (if self.d() < other.d() { Some(core::cmp::Ordering::Less) }
        else if self.d() == other.d() { Some(core::cmp::Ordering::Equal) }
        else { Some(core::cmp::Ordering::Greater) })
    { unimplemented!() } }

