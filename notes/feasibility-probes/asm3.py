import re,sys
R='/repo/crates/cgt-core/src/'; M=R+'matcher/'
def strip(src):
    i=src.find('#[cfg(test)]')
    if i>=0: src=src[:i]
    out=[]
    for l in src.splitlines():
        s=l.strip()
        if l.startswith('use ') or l.startswith('pub use ') or s.startswith('//') or s.startswith('#[derive') or s.startswith('#[serde') or s.startswith('#[must_use'): continue
        if re.match(r'^(pub )?mod \w+;',l): continue
        out.append(l)
    return '\n'.join(out)
def balanced(s,k,open_='(',close=')'):
    depth=1;instr=False
    while depth>0:
        c=s[k]
        if instr:
            if c=='\\': k+=1
            elif c=='"': instr=False
        else:
            if c=='"': instr=True
            elif c==open_: depth+=1
            elif c==close: depth-=1
        k+=1
    return k
def fmt_rewrite(s):
    out='';i=0
    while True:
        j=s.find('format!(',i)
        if j<0: out+=s[i:];break
        out+=s[i:j]; k=balanced(s,j+len('format!(')); out+='verif_fmt()'; i=k
    return out
def grab(src,start_pat):
    m=re.search(start_pat,src); i=m.start(); j=src.find('{',i); k=balanced(src,j+1,'{','}')
    return src[i:k]
shim=open('shim.rs').read()+open('shim2.rs').read()
models=open(R+'models.rs').read()
types='\n'.join(grab(models,p) for p in [r'pub struct GbpTransaction',r'pub enum Operation<M: Default>',r'pub struct Section104Holding',r'pub enum MatchRule',r'pub struct Match \{'])
types=strip(types)
err='''
pub enum CgtError { InvalidTransaction(String), InvalidDateYear { year: i32 }, InvalidTaxYear(u16), UnsupportedExemptionYear(u16), MissingFxRate { currency: String, year: i32, month: u32 }, ConfigError(String) }
#[verifier::external_body]
pub fn verif_fmt() -> String { unimplemented!() }
#[verifier::external_body]
pub fn string_clone(s: &String) -> (r: String) ensures r@ == s@ { s.clone() }
impl Clone for GbpTransaction { #[verifier::external_body] fn clone(&self) -> (r: Self) ensures r == *self { unimplemented!() } }
impl Clone for MatchResult { #[verifier::external_body] fn clone(&self) -> (r: Self) ensures r == *self { unimplemented!() } }
impl Default for matcher::AcquisitionLedger { #[verifier::external_body] fn default() -> (r: Self) { unimplemented!() } }
impl Default for Section104Holding { #[verifier::external_body] fn default() -> (r: Self) { unimplemented!() } }
use matcher::MatchResult;
'''
def mod(name): return 'pub mod %s {\nuse super::*;\n%s\n}\n'%(name, fmt_rewrite(strip(open(M+name+'.rs').read())))
body=fmt_rewrite(strip(open(M+'mod.rs').read()))
body=body.replace('impl Default for Matcher {\n    fn default() -> Self {\n        Self::new()\n    }\n}','')
out=shim+err+types+'\npub mod matcher {\nuse super::*;\n'+''.join(mod(n) for n in ['acquisition_ledger','section104','same_day','bed_and_breakfast'])+ "pub use acquisition_ledger::*;\n" + body+'\n}\n} // verus!\nfn main(){}\n'
# ---- stand-ins for rewrite rules (hand applied here; the extractor will do them generically)
rep=[
("""        self.lots
            .iter()
            .filter(|lot| lot.date == date)
            .map(|lot| lot.available())
            .sum()""","""        { let mut __acc = Decimal::ZERO; for lot in self.lots.iter() { if lot.date == date { __acc = __acc + lot.available(); } } __acc }"""),
("""let total_held: Decimal = self.lots.iter().map(|lot| lot.held_for_adjustment()).sum();""","""let total_held: Decimal = { let mut __acc = Decimal::ZERO; for lot in self.lots.iter() { __acc = __acc + lot.held_for_adjustment(); } __acc };"""),
("""        self.lots
            .iter()
            .filter(|lot| lot.held_for_adjustment() > Decimal::ZERO)
            .map(|lot| lot.adjusted_cost())
            .sum()""","""        { let mut __acc = Decimal::ZERO; for lot in self.lots.iter() { if lot.held_for_adjustment() > Decimal::ZERO { __acc = __acc + lot.adjusted_cost(); } } __acc }"""),
("for (idx, lot) in self.lots.iter().enumerate() {","for idx in 0..self.lots.len() { let lot = &self.lots[idx];"),
("for (pos, (idx, available)) in lots_on_date.iter().enumerate() {","for pos in 0..lots_on_date.len() { let (idx, available) = &lots_on_date[pos];"),
("for lot in &mut self.lots {","for lot in self.lots.iter_mut() {"),
("""    all_transactions
        .iter()
        .filter(|tx| tx.date == date && tx.ticker == ticker)
        .filter_map(|tx| match &tx.operation {
            Operation::Sell { amount, .. } => Some(*amount),
            _ => None,
        })
        .sum()""","""    { let mut __acc = Decimal::ZERO; for tx in all_transactions.iter() { if tx.date == date && tx.ticker == ticker { match &tx.operation { Operation::Sell { amount, .. } => { __acc = __acc + *amount; } _ => {} } } } __acc }"""),
("for (idx, tx) in all_transactions.iter().enumerate().skip(sell_idx + 1) {","let mut __i: usize = sell_idx + 1; while __i < all_transactions.len() decreases all_transactions.len() - __i { let idx = __i; let tx = &all_transactions[__i]; __i += 1;"),
("for (offset, tx) in transactions[i..day_end].iter().enumerate() {","for offset in 0..(day_end - i) { let tx = &transactions[i + offset];"),
("for tx in &transactions[i..day_end] {","for __o in 0..(day_end - i) { let tx = &transactions[i + __o];"),
]
rep+=[
("transactions.sort_by(|a, b| a.date.cmp(&b.date));","verif_sort_by_date(&mut transactions);"),
("""                if let Operation::Sell { amount, .. } = &tx.operation
                    && let Some(ledger) = ledgers.get_mut(&tx.ticker)
                {""","""                if let Operation::Sell { amount, .. } = &tx.operation { if let Some(ledger) = ledgers.get_mut(&tx.ticker)
                {"""),
("""                if let Some(pool) = self.pools.get_mut(&tx.ticker)
                    && *ratio != Decimal::ZERO
                {
                    pool.quantity /= *ratio;
                }""","""                if let Some(pool) = self.pools.get_mut(&tx.ticker) { if *ratio != Decimal::ZERO
                {
                    pool.quantity /= *ratio;
                } }"""),
]
for a,b in rep:
    out=out.replace(a,b)
open('t13.rs','w').write(out)
