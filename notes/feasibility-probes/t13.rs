use vstd::prelude::*;
use vstd::std_specs::ops::*;
use vstd::std_specs::cmp::*;
verus! {

// ---------- Decimal shim: exact real arithmetic ----------
#[verifier::external_body]
pub struct Decimal { _p: u8 }
impl Decimal {
    pub uninterp spec fn v(&self) -> real;
    #[verifier::external_body]
    pub exec const ZERO: Decimal ensures Self::ZERO.v() == 0real { unimplemented!() }
    #[verifier::external_body]
    pub exec const ONE: Decimal ensures Self::ONE.v() == 1real { unimplemented!() }
    #[verifier::external_body]
    pub fn min(self, o: Decimal) -> (r: Decimal)
        ensures r.v() == (if self.v() <= o.v() { self.v() } else { o.v() })
    { unimplemented!() }
    #[verifier::external_body]
    pub fn max(self, o: Decimal) -> (r: Decimal)
        ensures r.v() == (if self.v() >= o.v() { self.v() } else { o.v() })
    { unimplemented!() }
}
#[verifier::external_body]
pub const fn dec_zero() -> (r: Decimal) ensures r.v() == 0real { unimplemented!() }
#[verifier::external_body]
pub const fn dec_one() -> (r: Decimal) ensures r.v() == 1real { unimplemented!() }

impl Copy for Decimal {}
impl Clone for Decimal {
    #[verifier::external_body]
    fn clone(&self) -> (r: Self) ensures r == *self { *self }
}
pub broadcast axiom fn dec_ext(a: Decimal, b: Decimal)
    ensures #[trigger] a.v() == #[trigger] b.v() ==> a == b;

impl AddSpecImpl for Decimal {
    open spec fn obeys_add_spec() -> bool { false }
    open spec fn add_req(self, rhs: Decimal) -> bool { true }
    uninterp spec fn add_spec(self, rhs: Decimal) -> Decimal;
}
impl core::ops::Add for Decimal { type Output = Decimal;
    #[verifier::external_body]
    fn add(self, rhs: Decimal) -> (r: Decimal) ensures r.v() == self.v() + rhs.v() { unimplemented!() } }
impl SubSpecImpl for Decimal {
    open spec fn obeys_sub_spec() -> bool { false }
    open spec fn sub_req(self, rhs: Decimal) -> bool { true }
    uninterp spec fn sub_spec(self, rhs: Decimal) -> Decimal;
}
impl core::ops::Sub for Decimal { type Output = Decimal;
    #[verifier::external_body]
    fn sub(self, rhs: Decimal) -> (r: Decimal) ensures r.v() == self.v() - rhs.v() { unimplemented!() } }
impl MulSpecImpl for Decimal {
    open spec fn obeys_mul_spec() -> bool { false }
    open spec fn mul_req(self, rhs: Decimal) -> bool { true }
    uninterp spec fn mul_spec(self, rhs: Decimal) -> Decimal;
}
impl core::ops::Mul for Decimal { type Output = Decimal;
    #[verifier::external_body]
    fn mul(self, rhs: Decimal) -> (r: Decimal) ensures r.v() == self.v() * rhs.v() { unimplemented!() } }
impl DivSpecImpl for Decimal {
    open spec fn obeys_div_spec() -> bool { false }
    open spec fn div_req(self, rhs: Decimal) -> bool { rhs.v() != 0real }
    uninterp spec fn div_spec(self, rhs: Decimal) -> Decimal;
}
impl core::ops::Div for Decimal { type Output = Decimal;
    #[verifier::external_body]
    fn div(self, rhs: Decimal) -> (r: Decimal) ensures r.v() == self.v() / rhs.v() { unimplemented!() } }

impl AddAssignSpecImpl for Decimal {
    open spec fn obeys_add_assign_spec() -> bool { false }
    open spec fn add_assign_req(self, rhs: Decimal) -> bool { true }
    uninterp spec fn add_assign_spec(self, rhs: Decimal) -> Decimal;
}
impl core::ops::AddAssign for Decimal {
    #[verifier::external_body]
    fn add_assign(&mut self, rhs: Decimal) ensures final(self).v() == old(self).v() + rhs.v() { unimplemented!() } }
impl SubAssignSpecImpl for Decimal {
    open spec fn obeys_sub_assign_spec() -> bool { false }
    open spec fn sub_assign_req(self, rhs: Decimal) -> bool { true }
    uninterp spec fn sub_assign_spec(self, rhs: Decimal) -> Decimal;
}
impl core::ops::SubAssign for Decimal {
    #[verifier::external_body]
    fn sub_assign(&mut self, rhs: Decimal) ensures final(self).v() == old(self).v() - rhs.v() { unimplemented!() } }

impl PartialEqSpecImpl for Decimal {
    open spec fn obeys_eq_spec() -> bool { true }
    open spec fn eq_spec(&self, other: &Decimal) -> bool { self.v() == other.v() }
}
impl PartialEq for Decimal {
    #[verifier::external_body]
    fn eq(&self, other: &Decimal) -> (r: bool) ensures r == (self.v() == other.v()) { unimplemented!() } }
impl Eq for Decimal {}
impl PartialOrdSpecImpl for Decimal {
    open spec fn obeys_partial_cmp_spec() -> bool { true }
    open spec fn partial_cmp_spec(&self, other: &Decimal) -> Option<core::cmp::Ordering> {
        if self.v() < other.v() { Some(core::cmp::Ordering::Less) }
        else if self.v() == other.v() { Some(core::cmp::Ordering::Equal) }
        else { Some(core::cmp::Ordering::Greater) }
    }
}
impl PartialOrd for Decimal {
    #[verifier::external_body]
    fn partial_cmp(&self, other: &Decimal) -> (r: Option<core::cmp::Ordering>) 
      ensures r == (if self.v() < other.v() { Some(core::cmp::Ordering::Less) }
        else if self.v() == other.v() { Some(core::cmp::Ordering::Equal) }
        else { Some(core::cmp::Ordering::Greater) })
    { unimplemented!() } }

// ---------- NaiveDate shim: day number ----------
#[verifier::external_body]
pub struct NaiveDate { _p: u8 }
impl NaiveDate { pub uninterp spec fn d(&self) -> int; }
impl Copy for NaiveDate {}
impl Clone for NaiveDate {
    #[verifier::external_body]
    fn clone(&self) -> (r: Self) ensures r == *self { *self }
}
impl PartialEqSpecImpl for NaiveDate {
    open spec fn obeys_eq_spec() -> bool { true }
    open spec fn eq_spec(&self, other: &NaiveDate) -> bool { self.d() == other.d() }
}
impl PartialEq for NaiveDate {
    #[verifier::external_body]
    fn eq(&self, other: &NaiveDate) -> (r: bool) ensures r == (self.d() == other.d()) { unimplemented!() } }
impl Eq for NaiveDate {}
impl PartialOrdSpecImpl for NaiveDate {
    open spec fn obeys_partial_cmp_spec() -> bool { true }
    open spec fn partial_cmp_spec(&self, other: &NaiveDate) -> Option<core::cmp::Ordering> {
        if self.d() < other.d() { Some(core::cmp::Ordering::Less) }
        else if self.d() == other.d() { Some(core::cmp::Ordering::Equal) }
        else { Some(core::cmp::Ordering::Greater) }
    }
}
impl PartialOrd for NaiveDate {
    #[verifier::external_body]
    fn partial_cmp(&self, other: &NaiveDate) -> (r: Option<core::cmp::Ordering>) 
      ensures r == (if self.d() < other.d() { Some(core::cmp::Ordering::Less) }
        else if self.d() == other.d() { Some(core::cmp::Ordering::Equal) }
        else { Some(core::cmp::Ordering::Greater) })
    { unimplemented!() } }

// ---------- more Decimal ops ----------
impl MulAssignSpecImpl for Decimal {
    open spec fn obeys_mul_assign_spec() -> bool { false }
    open spec fn mul_assign_req(self, rhs: Decimal) -> bool { true }
    uninterp spec fn mul_assign_spec(self, rhs: Decimal) -> Decimal;
}
impl core::ops::MulAssign for Decimal {
    #[verifier::external_body]
    fn mul_assign(&mut self, rhs: Decimal) ensures final(self).v() == old(self).v() * rhs.v() { unimplemented!() } }
impl DivAssignSpecImpl for Decimal {
    open spec fn obeys_div_assign_spec() -> bool { false }
    open spec fn div_assign_req(self, rhs: Decimal) -> bool { rhs.v() != 0real }
    uninterp spec fn div_assign_spec(self, rhs: Decimal) -> Decimal;
}
impl core::ops::DivAssign for Decimal {
    #[verifier::external_body]
    fn div_assign(&mut self, rhs: Decimal) ensures final(self).v() == old(self).v() / rhs.v() { unimplemented!() } }

// ---------- TimeDelta ----------
#[verifier::external_body]
pub struct TimeDelta { _p: u8 }
impl TimeDelta {
    pub uninterp spec fn days(&self) -> int;
    #[verifier::external_body]
    pub fn num_days(&self) -> (r: i64) ensures r as int == self.days() { unimplemented!() }
}
impl SubSpecImpl for NaiveDate {
    open spec fn obeys_sub_spec() -> bool { false }
    open spec fn sub_req(self, rhs: NaiveDate) -> bool { true }
    uninterp spec fn sub_spec(self, rhs: NaiveDate) -> TimeDelta;
}
impl core::ops::Sub for NaiveDate { type Output = TimeDelta;
    #[verifier::external_body]
    fn sub(self, rhs: NaiveDate) -> (r: TimeDelta) ensures r.days() == self.d() - rhs.d() { unimplemented!() } }

// ---------- HashMap shim ----------
pub trait KeyView { type KV; spec fn kview(&self) -> Self::KV; }
impl KeyView for String { type KV = Seq<char>; open spec fn kview(&self) -> Seq<char> { self@ } }
impl KeyView for str { type KV = Seq<char>; open spec fn kview(&self) -> Seq<char> { self@ } }
impl KeyView for usize { type KV = usize; open spec fn kview(&self) -> usize { *self } }
impl KeyView for (NaiveDate, String) { type KV = (int, Seq<char>); open spec fn kview(&self) -> (int, Seq<char>) { (self.0.d(), self.1@) } }

#[verifier::external_body]
#[verifier::reject_recursive_types(K)]
#[verifier::reject_recursive_types(V)]
pub struct HashMap<K: KeyView, V> { _k: core::marker::PhantomData<(K, V)> }

#[verifier::external_body]
#[verifier::reject_recursive_types(K)]
#[verifier::reject_recursive_types(V)]
pub struct Entry<'a, K: KeyView, V> { _k: core::marker::PhantomData<&'a mut (K, V)> }

impl<K: KeyView, V> HashMap<K, V> {
    pub uninterp spec fn view(&self) -> Map<K::KV, V>;

    #[verifier::external_body]
    pub fn new() -> (r: Self) ensures r@ == Map::<K::KV, V>::empty() { unimplemented!() }

    #[verifier::external_body]
    pub fn get<'a, Q: KeyView<KV = K::KV> + ?Sized>(&'a self, k: &Q) -> (r: Option<&'a V>)
        ensures match r { Some(v) => self@.contains_key(k.kview()) && *v == self@[k.kview()], None => !self@.contains_key(k.kview()) }
    { unimplemented!() }

    #[verifier::external_body]
    pub fn get_mut<'a, Q: KeyView<KV = K::KV> + ?Sized>(&'a mut self, k: &Q) -> (r: Option<&'a mut V>)
        ensures match r {
            Some(v) => old(self)@.contains_key(k.kview()) && *v == old(self)@[k.kview()] && final(self)@ == old(self)@.insert(k.kview(), *final(v)),
            None => !old(self)@.contains_key(k.kview()) && final(self)@ == old(self)@,
        }
    { unimplemented!() }

    #[verifier::external_body]
    pub fn insert(&mut self, k: K, v: V) -> (r: Option<V>)
        ensures final(self)@ == old(self)@.insert(k.kview(), v)
    { unimplemented!() }

    #[verifier::external_body]
    pub fn entry<'a>(&'a mut self, k: K) -> (r: Entry<'a, K, V>)
        ensures r.key() == k.kview(), r.map_before() == old(self)@, final(self)@ == r.map_final()
    { unimplemented!() }

    #[verifier::external_body]
    pub fn remove<Q: KeyView<KV = K::KV> + ?Sized>(&mut self, k: &Q) -> (r: Option<V>)
        ensures final(self)@ == old(self)@.remove(k.kview()),
          match r { Some(v) => old(self)@.contains_key(k.kview()) && v == old(self)@[k.kview()], None => !old(self)@.contains_key(k.kview()) }
    { unimplemented!() }
}

impl Default for Decimal {
    #[verifier::external_body]
    fn default() -> (r: Decimal) ensures r.v() == 0real { unimplemented!() }
}
impl<'a, K: KeyView, V> Entry<'a, K, V> {
    pub uninterp spec fn key(&self) -> K::KV;
    pub uninterp spec fn map_before(&self) -> Map<K::KV, V>;
    pub uninterp spec fn map_final(&self) -> Map<K::KV, V>;

    #[verifier::external_body]
    pub fn or_default(self) -> (r: &'a mut V) where V: Default
        ensures self.map_before().contains_key(self.key()) ==> *r == self.map_before()[self.key()],
                self.map_final() == self.map_before().insert(self.key(), *final(r))
    { unimplemented!() }
    #[verifier::external_body]
    pub fn or_insert_with<F: FnOnce() -> V>(self, f: F) -> (r: &'a mut V)
        requires f.requires(())
        ensures self.map_before().contains_key(self.key()) ==> *r == self.map_before()[self.key()],
                !self.map_before().contains_key(self.key()) ==> f.ensures((), *r),
                self.map_final() == self.map_before().insert(self.key(), *final(r))
    { unimplemented!() }
    #[verifier::external_body]
    pub fn or_insert(self, default: V) -> (r: &'a mut V)
        ensures *r == (if self.map_before().contains_key(self.key()) { self.map_before()[self.key()] } else { default }),
                self.map_final() == self.map_before().insert(self.key(), *final(r))
    { unimplemented!() }
}

impl<K: KeyView, V> Default for HashMap<K, V> {
    #[verifier::external_body]
    fn default() -> (r: Self) ensures r@ == Map::<K::KV, V>::empty() { unimplemented!() }
}
impl NaiveDate {
    #[verifier::external_body]
    pub fn cmp(&self, o: &NaiveDate) -> (r: core::cmp::Ordering) { unimplemented!() }
}
impl NegSpecImpl for Decimal {
    open spec fn obeys_neg_spec() -> bool { false }
    open spec fn neg_req(self) -> bool { true }
    uninterp spec fn neg_spec(self) -> Decimal;
}
impl core::ops::Neg for Decimal { type Output = Decimal;
    #[verifier::external_body]
    fn neg(self) -> (r: Decimal) ensures r.v() == -self.v() { unimplemented!() } }
impl Decimal {
    #[verifier::external_body]
    pub fn round_dp(self, dp: u32) -> (r: Decimal) { unimplemented!() }
    #[verifier::external_body]
    pub fn abs(self) -> (r: Decimal) ensures r.v() == (if self.v() >= 0real { self.v() } else { -self.v() }) { unimplemented!() }
}
impl<K: KeyView, V> HashMap<K, V> {
    #[verifier::external_body]
    pub fn values<'a>(&'a self) -> (r: Vec<&'a V>)
        ensures r@.len() == self@.dom().len(),
            forall|i: int| 0 <= i < r@.len() ==> exists|k: K::KV| self@.contains_key(k) && *r@[i] == self@[k],
    { unimplemented!() }
}
pub assume_specification<T: Copy>[ Option::<&T>::copied ](o: Option<&T>) -> (r: Option<T>)
    ensures r == (match o { Some(x) => Some(*x), None => None });
pub assume_specification<T: Default>[ core::mem::take::<T> ](dest: &mut T) -> (r: T)
    ensures r == *old(dest);
#[verifier::external_body]
pub fn verif_sort_by_date(v: &mut Vec<GbpTransaction>)
    ensures final(v)@.len() == old(v)@.len()
{ unimplemented!() }

pub enum CgtError { InvalidTransaction(String), InvalidDateYear { year: i32 }, InvalidTaxYear(u16), UnsupportedExemptionYear(u16), MissingFxRate { currency: String, year: i32, month: u32 }, ConfigError(String) }
#[verifier::external_body]
pub fn verif_fmt() -> String { unimplemented!() }
#[verifier::external_body]
pub fn string_clone(s: &String) -> (r: String) ensures r@ == s@ { s.clone() }
impl Clone for GbpTransaction { #[verifier::external_body] fn clone(&self) -> (r: Self) ensures r == *self { unimplemented!() } }
impl Clone for MatchResult { #[verifier::external_body] fn clone(&self) -> (r: Self) ensures r == *self { unimplemented!() } }
impl Default for matcher::AcquisitionLedger { #[verifier::external_body] fn default() -> (r: Self) { unimplemented!() } }
impl Default for Section104Holding { #[verifier::external_body] fn default() -> (r: Self) { unimplemented!() } }
use matcher::MatchResult;
pub struct GbpTransaction {
    pub date: NaiveDate,
    pub ticker: String,
    pub operation: Operation<Decimal>,
}
pub enum Operation<M: Default> {
    Buy {
        amount: Decimal,
        price: M,
        fees: M,
    },
    Sell {
        amount: Decimal,
        price: M,
        fees: M,
    },
    Dividend {
        total_value: M,
        tax_paid: M,
    },
    Accumulation {
        amount: Decimal,
        total_value: M,
        tax_paid: M,
    },
    CapReturn {
        amount: Decimal,
        total_value: M,
        fees: M,
    },
    Split {
        ratio: Decimal,
    },
    Unsplit {
        ratio: Decimal,
    },
}
pub struct Section104Holding {
    pub ticker: String,
    pub quantity: Decimal,
    pub total_cost: Decimal,
}
pub enum MatchRule {
    SameDay,
    BedAndBreakfast,
    Section104,
}
pub struct Match {
    pub rule: MatchRule,
    pub quantity: Decimal,
    pub allowable_cost: Decimal,
    pub gain_or_loss: Decimal,
    pub acquisition_date: Option<NaiveDate>,
}
pub mod matcher {
use super::*;
pub mod acquisition_ledger {
use super::*;


pub struct AcquisitionLot {
    pub transaction_idx: usize,
    pub date: NaiveDate,
    pub original_amount: Decimal,
    pub price: Decimal,
    pub expenses: Decimal,
    pub cost_offset: Decimal,
    pub consumed: Decimal,
    pub reserved: Decimal,
    pub in_pool: Decimal,
}

pub struct AcquisitionExtras {
    pub cost_offset: Decimal,
    pub reserved: Decimal,
}

impl AcquisitionExtras {
    pub fn new(cost_offset: Decimal, reserved: Decimal) -> Self {
        Self {
            cost_offset,
            reserved,
        }
    }
}

impl AcquisitionLot {
    pub fn new(
        transaction_idx: usize,
        date: NaiveDate,
        amount: Decimal,
        price: Decimal,
        expenses: Decimal,
        cost_offset: Decimal,
        reserved: Decimal,
    ) -> Self {
        Self {
            transaction_idx,
            date,
            original_amount: amount,
            price,
            expenses,
            cost_offset,
            consumed: Decimal::ZERO,
            reserved,
            in_pool: Decimal::ZERO,
        }
    }

    pub fn base_cost(&self) -> Decimal {
        (self.original_amount * self.price) + self.expenses
    }

    pub fn adjusted_cost(&self) -> Decimal {
        self.base_cost() + self.cost_offset
    }

    pub fn adjusted_unit_cost(&self) -> Decimal {
        if self.original_amount != Decimal::ZERO {
            self.adjusted_cost() / self.original_amount
        } else {
            Decimal::ZERO
        }
    }

    pub fn available(&self) -> Decimal {
        self.original_amount - self.consumed - self.reserved - self.in_pool
    }

    pub fn held_for_adjustment(&self) -> Decimal {
        self.original_amount - self.consumed
    }

    pub fn consume(&mut self, amount: Decimal) {
        self.consumed += amount;
    }

    pub fn move_to_pool(&mut self, amount: Decimal) {
        self.in_pool += amount;
    }
}

pub struct AcquisitionLedger {
    lots: Vec<AcquisitionLot>,
}

impl AcquisitionLedger {
    pub fn new() -> Self {
        Self { lots: Vec::new() }
    }

    pub fn add_acquisition(
        &mut self,
        transaction_idx: usize,
        date: NaiveDate,
        amount: Decimal,
        price: Decimal,
        expenses: Decimal,
        extras: AcquisitionExtras,
    ) {
        self.lots.push(AcquisitionLot::new(
            transaction_idx,
            date,
            amount,
            price,
            expenses,
            extras.cost_offset,
            extras.reserved,
        ));
    }

    pub fn remaining_for_date(&self, date: NaiveDate) -> Decimal {
        { let mut __acc = Decimal::ZERO; for lot in self.lots.iter() { if lot.date == date { __acc = __acc + lot.available(); } } __acc }
    }

    pub fn cost_for_date(&self, date: NaiveDate, amount: Decimal) -> Decimal {
        let mut remaining = amount;
        let mut total_cost = Decimal::ZERO;

        for lot in &self.lots {
            if lot.date == date && remaining > Decimal::ZERO {
                let available = lot.available();
                if available > Decimal::ZERO {
                    let to_use = remaining.min(available);
                    total_cost += to_use * lot.adjusted_unit_cost();
                    remaining -= to_use;
                }
            }
        }

        total_cost
    }

    pub fn apply_cost_adjustment(&mut self, adjustment: Decimal) {
        let total_held: Decimal = { let mut __acc = Decimal::ZERO; for lot in self.lots.iter() { __acc = __acc + lot.held_for_adjustment(); } __acc };
        if total_held == Decimal::ZERO {
            return;
        }

        for lot in self.lots.iter_mut() {
            let held = lot.held_for_adjustment();
            if held > Decimal::ZERO {
                let apportioned = adjustment * (held / total_held);
                lot.cost_offset += apportioned;
            }
        }
    }

    pub fn total_adjusted_cost(&self) -> Decimal {
        { let mut __acc = Decimal::ZERO; for lot in self.lots.iter() { if lot.held_for_adjustment() > Decimal::ZERO { __acc = __acc + lot.adjusted_cost(); } } __acc }
    }

    pub fn consume_shares_on_date(&mut self, date: NaiveDate, amount: Decimal) -> Decimal {
        let mut total_available = Decimal::ZERO;
        let mut total_cost = Decimal::ZERO;
        let mut lots_on_date = Vec::new();

        for idx in 0..self.lots.len() { let lot = &self.lots[idx];
            if lot.date == date {
                let available = lot.available();
                if available > Decimal::ZERO {
                    total_available += available;
                    total_cost += available * lot.adjusted_unit_cost();
                    lots_on_date.push((idx, available));
                }
            }
        }

        if total_available == Decimal::ZERO || amount <= Decimal::ZERO {
            return Decimal::ZERO;
        }

        let matched = amount.min(total_available);
        let ratio = matched / total_available;
        let mut remaining = matched;

        for pos in 0..lots_on_date.len() { let (idx, available) = &lots_on_date[pos];
            let to_consume = if pos + 1 == lots_on_date.len() {
                remaining.min(*available)
            } else {
                let proportional = *available * ratio;
                if proportional > remaining {
                    remaining
                } else {
                    proportional
                }
            };

            if to_consume > Decimal::ZERO {
                if let Some(lot) = self.lots.get_mut(*idx) {
                    lot.consume(to_consume);
                }
                remaining -= to_consume;
            }
        }

        let average_cost = total_cost / total_available;
        matched * average_cost
    }

    pub fn consume_shares_before_date(&mut self, date: NaiveDate, amount: Decimal) {
        let mut remaining = amount;

        for lot in self.lots.iter_mut() {
            if lot.date < date && remaining > Decimal::ZERO {
                let available = lot.available();
                if available > Decimal::ZERO {
                    let to_consume = remaining.min(available);
                    lot.consume(to_consume);
                    remaining -= to_consume;
                }
            }
        }
    }

    pub fn consume_for_pool(&mut self, date: NaiveDate, amount: Decimal) {
        let mut remaining = amount;

        for lot in self.lots.iter_mut() {
            if lot.date == date && remaining > Decimal::ZERO {
                let available = lot.available();
                if available > Decimal::ZERO {
                    let to_move = remaining.min(available);
                    lot.move_to_pool(to_move);
                    remaining -= to_move;
                }
            }
        }
    }

    pub fn lots(&self) -> &[AcquisitionLot] {
        &self.lots
    }
}
}
pub mod section104 {
use super::*;


pub fn match_section_104(
    matcher: &mut Matcher,
    sell_tx: &GbpTransaction,
    remaining: &mut Decimal,
    total_sell_amount: Decimal,
) -> Result<Option<MatchResult>, CgtError> {
    if *remaining == Decimal::ZERO {
        return Ok(None);
    }

    let Some(pool) = matcher.get_pool_mut(&sell_tx.ticker) else {
        return Ok(None);
    };

    if pool.quantity == Decimal::ZERO {
        return Ok(None);
    }

    if total_sell_amount == Decimal::ZERO {
        return Ok(None);
    }

    let matched_qty = (*remaining).min(pool.quantity);
    if matched_qty == Decimal::ZERO {
        return Ok(None);
    }

    let Operation::Sell {
        price: sell_price,
        fees: sell_fees,
        ..
    } = &sell_tx.operation
    else {
        return Ok(None);
    };

    let unit_cost = if pool.quantity != Decimal::ZERO {
        pool.total_cost / pool.quantity
    } else {
        Decimal::ZERO
    };
    let cost = matched_qty * unit_cost;

    pool.quantity -= matched_qty;
    pool.total_cost -= cost;
    *remaining -= matched_qty;

    let proceeds = compute_proceeds(matched_qty, total_sell_amount, *sell_price, *sell_fees);

    let gain_or_loss = proceeds.net_proceeds - cost;

    Ok(Some(MatchResult {
        disposal_date: sell_tx.date,
        disposal_ticker: sell_tx.ticker.clone(),
        gross_proceeds: proceeds.gross_proceeds,
        proceeds: proceeds.net_proceeds,
        match_detail: Match {
            rule: MatchRule::Section104,
            quantity: matched_qty,
            allowable_cost: cost,
            gain_or_loss,
            acquisition_date: None,
        },
    }))
}
}
pub mod same_day {
use super::*;


pub fn match_same_day(
    matcher: &mut Matcher,
    sell_tx: &GbpTransaction,
    remaining: &mut Decimal,
    _all_transactions: &[GbpTransaction],
) -> Result<Vec<MatchResult>, CgtError> {
    let mut results = Vec::new();

    let Operation::Sell {
        amount: sell_amount,
        price: sell_price,
        fees: sell_fees,
    } = &sell_tx.operation
    else {
        return Ok(results);
    };

    let Some(ledger) = matcher.get_ledger_mut(&sell_tx.ticker) else {
        return Ok(results);
    };

    let available = ledger.remaining_for_date(sell_tx.date);
    if available > Decimal::ZERO && *remaining > Decimal::ZERO {
        if *sell_amount == Decimal::ZERO {
            return Ok(results);
        }

        let matched_qty = (*remaining).min(available);
        let cost = ledger.consume_shares_on_date(sell_tx.date, matched_qty);

        let proceeds = compute_proceeds(matched_qty, *sell_amount, *sell_price, *sell_fees);

        let gain_or_loss = proceeds.net_proceeds - cost;

        results.push(MatchResult {
            disposal_date: sell_tx.date,
            disposal_ticker: sell_tx.ticker.clone(),
            gross_proceeds: proceeds.gross_proceeds,
            proceeds: proceeds.net_proceeds,
            match_detail: Match {
                rule: MatchRule::SameDay,
                quantity: matched_qty,
                allowable_cost: cost,
                gain_or_loss,
                acquisition_date: Some(sell_tx.date),
            },
        });

        *remaining -= matched_qty;
    }

    Ok(results)
}
}
pub mod bed_and_breakfast {
use super::*;


const BNB_WINDOW_DAYS: i64 = 30;

fn same_day_disposal_quantity(
    date: NaiveDate,
    ticker: &str,
    all_transactions: &[GbpTransaction],
) -> Decimal {
    { let mut __acc = Decimal::ZERO; for tx in all_transactions.iter() { if tx.date == date && tx.ticker == ticker { match &tx.operation { Operation::Sell { amount, .. } => { __acc = __acc + *amount; } _ => {} } } } __acc }
}

fn apply_split_ratio_effect(cumulative_ratio_effect: &mut Decimal, tx: &GbpTransaction) {
    match &tx.operation {
        Operation::Split { ratio } => {
            *cumulative_ratio_effect *= *ratio;
        }
        Operation::Unsplit { ratio } => {
            if *ratio != Decimal::ZERO {
                *cumulative_ratio_effect /= *ratio;
            }
        }
        _ => {}
    }
}

fn available_for_bnb_after_reservations(
    idx: usize,
    tx: &GbpTransaction,
    buy_amount: Decimal,
    all_transactions: &[GbpTransaction],
    future_consumption: &HashMap<usize, Decimal>,
    same_day_reservations: &mut HashMap<(NaiveDate, String), Decimal>,
) -> Decimal {
    let already_reserved = future_consumption
        .get(&idx)
        .copied()
        .unwrap_or(Decimal::ZERO);

    let available_before_same_day = buy_amount - already_reserved;
    if available_before_same_day <= Decimal::ZERO {
        return Decimal::ZERO;
    }

    let reservation_key = (tx.date, tx.ticker.clone());
    let reservation_remaining = same_day_reservations
        .entry(reservation_key)
        .or_insert_with(|| same_day_disposal_quantity(tx.date, &tx.ticker, all_transactions));

    let reserve_now = available_before_same_day.min((*reservation_remaining).max(Decimal::ZERO));
    *reservation_remaining -= reserve_now;

    available_before_same_day - reserve_now
}

fn matched_buy_cost(
    matched_qty_at_buy_time: Decimal,
    buy_amount: Decimal,
    buy_price: Decimal,
    buy_fees: Decimal,
    cost_offset: Decimal,
) -> Decimal {
    let total_cost = (buy_amount * buy_price) + buy_fees + cost_offset;
    let unit_cost = if buy_amount != Decimal::ZERO {
        total_cost / buy_amount
    } else {
        Decimal::ZERO
    };

    matched_qty_at_buy_time * unit_cost
}

fn matched_quantities_with_split_ratio(
    remaining_at_sell_time: Decimal,
    available_at_buy_time: Decimal,
    cumulative_ratio_effect: Decimal,
) -> (Decimal, Decimal) {
    let available_at_sell_time = available_at_buy_time / cumulative_ratio_effect;
    let matched_qty_at_sell_time = remaining_at_sell_time.min(available_at_sell_time);
    let matched_qty_at_buy_time = matched_qty_at_sell_time * cumulative_ratio_effect;

    (matched_qty_at_sell_time, matched_qty_at_buy_time)
}

fn reserve_future_buy_consumption(
    future_consumption: &mut HashMap<usize, Decimal>,
    idx: usize,
    matched_qty_at_buy_time: Decimal,
) {
    let reserved_entry = future_consumption.entry(idx).or_insert(Decimal::ZERO);
    *reserved_entry += matched_qty_at_buy_time;
}

fn build_bnb_match(
    sell_tx: &GbpTransaction,
    acquisition_date: NaiveDate,
    matched_qty_at_sell_time: Decimal,
    sell_amount: Decimal,
    sell_price: Decimal,
    sell_fees: Decimal,
    cost: Decimal,
) -> MatchResult {
    let proceeds = compute_proceeds(matched_qty_at_sell_time, sell_amount, sell_price, sell_fees);
    let gain_or_loss = proceeds.net_proceeds - cost;

    MatchResult {
        disposal_date: sell_tx.date,
        disposal_ticker: sell_tx.ticker.clone(),
        gross_proceeds: proceeds.gross_proceeds,
        proceeds: proceeds.net_proceeds,
        match_detail: Match {
            rule: MatchRule::BedAndBreakfast,
            quantity: matched_qty_at_sell_time,
            allowable_cost: cost,
            gain_or_loss,
            acquisition_date: Some(acquisition_date),
        },
    }
}

pub fn match_bed_and_breakfast(
    sell_tx: &GbpTransaction,
    sell_idx: usize,
    remaining: &mut Decimal,
    all_transactions: &[GbpTransaction],
    cost_offsets: &[Decimal],
    future_consumption: &mut HashMap<usize, Decimal>,
    same_day_reservations: &mut HashMap<(NaiveDate, String), Decimal>,
) -> Result<Vec<MatchResult>, CgtError> {
    let mut results = Vec::new();

    let Operation::Sell {
        amount: sell_amount,
        price: sell_price,
        fees: sell_fees,
    } = &sell_tx.operation
    else {
        return Ok(results);
    };

    if *sell_amount == Decimal::ZERO {
        return Ok(results);
    }

    let mut cumulative_ratio_effect = Decimal::ONE;

    let mut __i: usize = sell_idx + 1; while __i < all_transactions.len() decreases all_transactions.len() - __i { let idx = __i; let tx = &all_transactions[__i]; __i += 1;
        if *remaining <= Decimal::ZERO {
            break;
        }

        if tx.ticker != sell_tx.ticker {
            continue;
        }

        let days_diff = (tx.date - sell_tx.date).num_days();

        if days_diff <= 0 {
            continue;
        }

        if days_diff > BNB_WINDOW_DAYS {
            break;
        }

        match &tx.operation {
            Operation::Split { .. } | Operation::Unsplit { .. } => {
                apply_split_ratio_effect(&mut cumulative_ratio_effect, tx);
            }
            Operation::Buy {
                amount,
                price,
                fees,
            } => {
                let available_at_buy_time = available_for_bnb_after_reservations(
                    idx,
                    tx,
                    *amount,
                    all_transactions,
                    future_consumption,
                    same_day_reservations,
                );
                if available_at_buy_time <= Decimal::ZERO {
                    continue;
                }

                let (matched_qty_at_sell_time, matched_qty_at_buy_time) =
                    matched_quantities_with_split_ratio(
                        *remaining,
                        available_at_buy_time,
                        cumulative_ratio_effect,
                    );

                let cost = matched_buy_cost(
                    matched_qty_at_buy_time,
                    *amount,
                    *price,
                    *fees,
                    cost_offsets.get(idx).copied().unwrap_or(Decimal::ZERO),
                );

                results.push(build_bnb_match(
                    sell_tx,
                    tx.date,
                    matched_qty_at_sell_time,
                    *sell_amount,
                    *sell_price,
                    *sell_fees,
                    cost,
                ));

                *remaining -= matched_qty_at_sell_time;
                reserve_future_buy_consumption(future_consumption, idx, matched_qty_at_buy_time);
            }
            _ => {}
        }
    }

    Ok(results)
}
}
pub use acquisition_ledger::*;




pub struct MatchResult {
    pub disposal_date: NaiveDate,
    pub disposal_ticker: String,
    pub gross_proceeds: Decimal,
    pub proceeds: Decimal,
    pub match_detail: Match,
}

pub(crate) struct ProportionalProceeds {
    pub(crate) gross_proceeds: Decimal,
    pub(crate) fees: Decimal,
    pub(crate) net_proceeds: Decimal,
}

pub(crate) fn compute_proceeds(
    matched_qty: Decimal,
    sell_qty: Decimal,
    sell_price: Decimal,
    sell_fees: Decimal,
) -> ProportionalProceeds {
    if sell_qty == Decimal::ZERO {
        return ProportionalProceeds {
            gross_proceeds: Decimal::ZERO,
            fees: Decimal::ZERO,
            net_proceeds: Decimal::ZERO,
        };
    }

    let proportion = matched_qty / sell_qty;
    let gross_proceeds = matched_qty * sell_price;
    let fees = sell_fees * proportion;
    let net_proceeds = gross_proceeds - fees;

    ProportionalProceeds {
        gross_proceeds,
        fees,
        net_proceeds,
    }
}

pub struct Matcher {
    ledgers: HashMap<String, AcquisitionLedger>,
    matches: Vec<MatchResult>,
    pools: HashMap<String, Section104Holding>,
}

impl Matcher {
    pub fn new() -> Self {
        Self {
            ledgers: HashMap::new(),
            matches: Vec::new(),
            pools: HashMap::new(),
        }
    }

    pub fn process(
        &mut self,
        transactions: Vec<GbpTransaction>,
    ) -> Result<(Vec<MatchResult>, HashMap<String, Section104Holding>), CgtError> {
        let transactions = self.preprocess(transactions);

        let cost_offsets = self.compute_cost_offsets(&transactions)?;
        let mut future_consumption: HashMap<usize, Decimal> = HashMap::new();
        let mut same_day_reservations: HashMap<(NaiveDate, String), Decimal> = HashMap::new();

        let mut i = 0;
        while i < transactions.len() {
            let current_date = transactions[i].date;

            let mut day_end = i;
            while day_end < transactions.len() && transactions[day_end].date == current_date {
                day_end += 1;
            }

            for offset in 0..(day_end - i) { let tx = &transactions[i + offset];
                if let Operation::Buy {
                    amount,
                    price,
                    fees,
                } = &tx.operation
                {
                    let idx = i + offset;
                    let reserved = future_consumption.remove(&idx).unwrap_or(Decimal::ZERO);
                    if reserved > *amount {
                        return Err(CgtError::InvalidTransaction(verif_fmt()));
                    }
                    let cost_offset = cost_offsets.get(idx).copied().unwrap_or(Decimal::ZERO);
                    let ledger = self.ledgers.entry(tx.ticker.clone()).or_default();
                    ledger.add_acquisition(
                        idx,
                        tx.date,
                        *amount,
                        *price,
                        *fees,
                        AcquisitionExtras::new(cost_offset, reserved),
                    );
                }
            }

            for offset in 0..(day_end - i) { let tx = &transactions[i + offset];
                if matches!(tx.operation, Operation::Sell { .. }) {
                    let idx = i + offset;
                    self.process_sell(
                        tx,
                        idx,
                        &transactions,
                        &cost_offsets,
                        &mut future_consumption,
                        &mut same_day_reservations,
                    )?;
                }
            }

            for __o in 0..(day_end - i) { let tx = &transactions[i + __o];
                if matches!(tx.operation, Operation::Buy { .. }) {
                    self.move_buy_to_pool(tx)?;
                }
            }

            for __o in 0..(day_end - i) { let tx = &transactions[i + __o];
                self.process_corporate_action(tx)?;
            }

            i = day_end;
        }

        Ok((
            std::mem::take(&mut self.matches),
            std::mem::take(&mut self.pools),
        ))
    }

    fn preprocess(&self, mut transactions: Vec<GbpTransaction>) -> Vec<GbpTransaction> {
        verif_sort_by_date(&mut transactions);

        let mut merged = Vec::new();
        if transactions.is_empty() {
            return merged;
        }

        let mut current = transactions[0].clone();

        for next in transactions.into_iter().skip(1) {
            if next.date == current.date && next.ticker == current.ticker {
                match (&mut current.operation, next.operation) {
                    (
                        Operation::Buy {
                            amount: current_amount,
                            price: current_price,
                            fees: current_fees,
                        },
                        Operation::Buy {
                            amount: next_amount,
                            price: next_price,
                            fees: next_fees,
                        },
                    ) => {
                        let total_cost =
                            (*current_amount * *current_price) + (next_amount * next_price);
                        *current_amount += next_amount;
                        if *current_amount != Decimal::ZERO {
                            *current_price = total_cost / *current_amount;
                        }
                        *current_fees += next_fees;
                    }
                    (
                        Operation::Sell {
                            amount: current_amount,
                            price: current_price,
                            fees: current_fees,
                        },
                        Operation::Sell {
                            amount: next_amount,
                            price: next_price,
                            fees: next_fees,
                        },
                    ) => {
                        let total_proceeds =
                            (*current_amount * *current_price) + (next_amount * next_price);
                        *current_amount += next_amount;
                        if *current_amount != Decimal::ZERO {
                            *current_price = total_proceeds / *current_amount;
                        }
                        *current_fees += next_fees;
                    }
                    (_, next_op) => {
                        merged.push(current);
                        current = GbpTransaction {
                            date: next.date,
                            ticker: next.ticker,
                            operation: next_op,
                        };
                    }
                }
            } else {
                merged.push(current);
                current = next;
            }
        }
        merged.push(current);

        merged
    }

    fn compute_cost_offsets(
        &self,
        transactions: &[GbpTransaction],
    ) -> Result<Vec<Decimal>, CgtError> {
        let mut ledgers: HashMap<String, AcquisitionLedger> = HashMap::new();
        let mut i = 0;

        while i < transactions.len() {
            let current_date = transactions[i].date;
            let mut day_end = i;
            while day_end < transactions.len() && transactions[day_end].date == current_date {
                day_end += 1;
            }

            for __o in 0..(day_end - i) { let tx = &transactions[i + __o];
                match &tx.operation {
                    Operation::CapReturn {
                        total_value, fees, ..
                    } => {
                        let net_value = *total_value - *fees;
                        if let Some(ledger) = ledgers.get_mut(&tx.ticker) {
                            let basis_before = ledger.total_adjusted_cost();
                            if net_value > basis_before {
                                return Err(CgtError::InvalidTransaction(verif_fmt()));
                            }
                            ledger.apply_cost_adjustment(-net_value);
                        }
                    }
                    Operation::Accumulation { total_value, .. } => {
                        if let Some(ledger) = ledgers.get_mut(&tx.ticker) {
                            ledger.apply_cost_adjustment(*total_value);
                        }
                    }
                    _ => {}
                }
            }

            for offset in 0..(day_end - i) { let tx = &transactions[i + offset];
                if let Operation::Buy {
                    amount,
                    price,
                    fees,
                } = &tx.operation
                {
                    let idx = i + offset;
                    let ledger = ledgers.entry(tx.ticker.clone()).or_default();
                    ledger.add_acquisition(
                        idx,
                        tx.date,
                        *amount,
                        *price,
                        *fees,
                        AcquisitionExtras::new(Decimal::ZERO, Decimal::ZERO),
                    );
                }
            }

            for __o in 0..(day_end - i) { let tx = &transactions[i + __o];
                if let Operation::Sell { amount, .. } = &tx.operation { if let Some(ledger) = ledgers.get_mut(&tx.ticker)
                {
                    let available_same_day = ledger.remaining_for_date(tx.date);
                    if available_same_day > Decimal::ZERO {
                        let matched = (*amount).min(available_same_day);
                        ledger.consume_shares_on_date(tx.date, matched);
                        let remaining = *amount - matched;
                        if remaining > Decimal::ZERO {
                            ledger.consume_shares_before_date(tx.date, remaining);
                        }
                    } else {
                        ledger.consume_shares_before_date(tx.date, *amount);
                    }
                } }
            }

            i = day_end;
        }

        let mut offsets = vec![Decimal::ZERO; transactions.len()];
        for ledger in ledgers.values() {
            for lot in ledger.lots() {
                offsets[lot.transaction_idx] = lot.cost_offset;
            }
        }

        Ok(offsets)
    }

    fn process_sell(
        &mut self,
        tx: &GbpTransaction,
        sell_idx: usize,
        all_transactions: &[GbpTransaction],
        cost_offsets: &[Decimal],
        future_consumption: &mut HashMap<usize, Decimal>,
        same_day_reservations: &mut HashMap<(NaiveDate, String), Decimal>,
    ) -> Result<(), CgtError> {
        let Operation::Sell { amount, .. } = &tx.operation else {
            return Ok(());
        };

        let ledger_held = self
            .ledgers
            .get(&tx.ticker)
            .map(|l| l.remaining_for_date(tx.date))
            .unwrap_or(Decimal::ZERO);
        let pool_held = self
            .pools
            .get(&tx.ticker)
            .map(|p| p.quantity)
            .unwrap_or(Decimal::ZERO);
        let total_held = ledger_held + pool_held;
        if *amount > total_held {
            return Err(CgtError::InvalidTransaction(verif_fmt()));
        }

        let mut remaining = *amount;

        let same_day_matched =
            same_day::match_same_day(self, tx, &mut remaining, all_transactions)?;
        for m in same_day_matched {
            self.matches.push(m);
        }

        let bnb_matched = bed_and_breakfast::match_bed_and_breakfast(
            tx,
            sell_idx,
            &mut remaining,
            all_transactions,
            cost_offsets,
            future_consumption,
            same_day_reservations,
        )?;
        for m in bnb_matched {
            self.matches.push(m);
        }

        if remaining > Decimal::ZERO {
            let s104_matched = section104::match_section_104(self, tx, &mut remaining, *amount)?;
            if let Some(m) = s104_matched {
                self.matches.push(m);
            }
        }

        if remaining > Decimal::ZERO {
            if remaining == *amount {
                return Err(CgtError::InvalidTransaction(verif_fmt()));
            }

            let matched = *amount - remaining;
            return Err(CgtError::InvalidTransaction(verif_fmt()));
        }

        Ok(())
    }

    fn move_buy_to_pool(&mut self, tx: &GbpTransaction) -> Result<(), CgtError> {
        if !matches!(tx.operation, Operation::Buy { .. }) {
            return Ok(());
        }

        if let Some(ledger) = self.ledgers.get(&tx.ticker) {
            let remaining = ledger.remaining_for_date(tx.date);
            if remaining > Decimal::ZERO {
                let cost = ledger.cost_for_date(tx.date, remaining);
                let pool =
                    self.pools
                        .entry(tx.ticker.clone())
                        .or_insert_with(|| Section104Holding {
                            ticker: tx.ticker.clone(),
                            quantity: Decimal::ZERO,
                            total_cost: Decimal::ZERO,
                        });
                pool.quantity += remaining;
                pool.total_cost += cost;

                if let Some(ledger) = self.ledgers.get_mut(&tx.ticker) {
                    ledger.consume_for_pool(tx.date, remaining);
                }
            }
        }
        Ok(())
    }

    fn process_corporate_action(&mut self, tx: &GbpTransaction) -> Result<(), CgtError> {
        match &tx.operation {
            Operation::Split { ratio } => {
                if let Some(pool) = self.pools.get_mut(&tx.ticker) {
                    pool.quantity *= *ratio;
                }
            }
            Operation::Unsplit { ratio } => {
                if let Some(pool) = self.pools.get_mut(&tx.ticker) { if *ratio != Decimal::ZERO
                {
                    pool.quantity /= *ratio;
                } }
            }
            Operation::Buy { .. }
            | Operation::Sell { .. }
            | Operation::Dividend { .. }
            | Operation::Accumulation { .. }
            | Operation::CapReturn { .. } => {}
        }
        Ok(())
    }

    pub(super) fn get_ledger_mut(&mut self, ticker: &str) -> Option<&mut AcquisitionLedger> {
        self.ledgers.get_mut(ticker)
    }

    pub(super) fn get_pool_mut(&mut self, ticker: &str) -> Option<&mut Section104Holding> {
        self.pools.get_mut(ticker)
    }
}



}
} // verus!
fn main(){}
