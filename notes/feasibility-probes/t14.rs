use vstd::prelude::*;
verus! {
proof fn step(remaining: real, ratio: real, s: real, a: real)
    requires remaining == ratio * s, 0real < ratio <= 1real, 0real < a <= s
    ensures remaining - a * ratio == ratio * (s - a), a * ratio <= remaining, a * ratio <= a, a * ratio > 0real
{
    assert(ratio * (s - a) == ratio * s - ratio * a) by(nonlinear_arith);
    assert(a * ratio == ratio * a) by(nonlinear_arith);
    assert(ratio * a <= ratio * s) by(nonlinear_arith) requires 0real < ratio, a <= s;
    assert(a * ratio <= a) by(nonlinear_arith) requires ratio <= 1real, 0real < a;
    assert(a * ratio > 0real) by(nonlinear_arith) requires 0real < ratio, 0real < a;
}
proof fn avg(matched: real, total: real, tc: real)
    requires total > 0real, 0real < matched <= total
    ensures (matched / total) * tc == matched * (tc / total)
{
    assert((matched / total) * tc == matched * (tc / total)) by(nonlinear_arith) requires total > 0real;
}
proof fn ratio_bounds(matched: real, total: real)
    requires total > 0real, 0real < matched <= total
    ensures 0real < matched / total <= 1real, (matched/total) * total == matched
{
    assert(0real < matched / total <= 1real && (matched/total) * total == matched) by(nonlinear_arith) requires total > 0real, 0real < matched <= total;
}
}
fn main() {}
