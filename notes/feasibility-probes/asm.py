import re,sys
R='/repo/crates/cgt-core/src/'
def strip(src, drop_tests=True):
    if drop_tests:
        i=src.find('#[cfg(test)]')
        if i>=0: src=src[:i]
    out=[]
    for l in src.splitlines():
        s=l.strip()
        if l.startswith('use ') or l.startswith('pub use ') or s.startswith('//') or s.startswith('#[serde') or s.startswith('#[must_use') : continue
        if re.match(r'^(pub )?mod \w+;',l): continue
        l=re.sub(r'#\[derive\(([^)]*)\)\]', lambda m: '#[derive('+', '.join(x for x in [y.strip() for y in m.group(1).split(',')] if x in ('Clone','Copy','Default','PartialEq','Eq','Debug'))+')]', l)
        out.append(l)
    return '\n'.join(out)
def fmt_rewrite(s):
    # format!(...) -> verif_fmt()
    out='';i=0
    while True:
        j=s.find('format!(',i)
        if j<0: out+=s[i:];break
        out+=s[i:j]
        k=j+len('format!(');depth=1
        instr=False
        while depth>0:
            c=s[k]
            if instr:
                if c=='\\': k+=1
                elif c=='"': instr=False
            else:
                if c=='"': instr=True
                elif c=='(': depth+=1
                elif c==')': depth-=1
            k+=1
        out+='verif_fmt()'
        i=k
    return out
shim=open('shim.rs').read()+open('shim2.rs').read()
models=open(R+'models.rs').read()
def grab(src,start_pat):
    m=re.search(start_pat,src)
    i=m.start(); j=src.find('{',i); d=0;k=j
    while True:
        if src[k]=='{':d+=1
        elif src[k]=='}':
            d-=1
            if d==0:break
        k+=1
    return src[i:k+1]
types='\n'.join(grab(models,p) for p in [r'pub struct GbpTransaction',r'pub enum Operation<M: Default>',r'pub struct Section104Holding',r'pub enum MatchRule',r'pub struct Match \{'])
types=strip(types,False)
err='''
pub enum CgtError { InvalidTransaction(String), InvalidDateYear { year: i32 }, InvalidTaxYear(u16), UnsupportedExemptionYear(u16), MissingFxRate { currency: String, year: i32, month: u32 }, ConfigError(String) }
#[verifier::external_body]
pub fn verif_fmt() -> String { unimplemented!() }
'''
M=R+'matcher/'
def mod(name): return 'pub mod %s {\nuse super::*;\n%s\n}\n'%(name, fmt_rewrite(strip(open(M+name+'.rs').read())))
body=fmt_rewrite(strip(open(M+'mod.rs').read()))
files=sys.argv[1:] or ['acquisition_ledger','section104','same_day','bed_and_breakfast']
out=shim+err+types+'\npub mod matcher {\nuse super::*;\n'+''.join(mod(n) for n in files)+ "use acquisition_ledger::*;\n" + body+'\n}\n} // verus!\nfn main(){}\n'
open('t10.rs','w').write(out)
