// ---------- more Decimal ops ----------
impl MulAssignSpecImpl for Decimal {
    open spec fn obeys_mul_assign_spec() -> bool { false }
    open spec fn mul_assign_req(self, rhs: Decimal) -> bool { true }
    uninterp spec fn mul_assign_spec(self, rhs: Decimal) -> Decimal;
}
impl core::ops::MulAssign for Decimal {
    #[verifier::external_body]
    fn mul_assign(&mut self, rhs: Decimal) ensures final(self).v() == old(self).v() * rhs.v() { unimplemented!() } }
impl DivAssignSpecImpl for Decimal {
    open spec fn obeys_div_assign_spec() -> bool { false }
    open spec fn div_assign_req(self, rhs: Decimal) -> bool { rhs.v() != 0real }
    uninterp spec fn div_assign_spec(self, rhs: Decimal) -> Decimal;
}
impl core::ops::DivAssign for Decimal {
    #[verifier::external_body]
    fn div_assign(&mut self, rhs: Decimal) ensures final(self).v() == old(self).v() / rhs.v() { unimplemented!() } }

// ---------- TimeDelta ----------
#[verifier::external_body]
pub struct TimeDelta { _p: u8 }
impl TimeDelta {
    pub uninterp spec fn days(&self) -> int;
    #[verifier::external_body]
    pub fn num_days(&self) -> (r: i64) ensures r as int == self.days() { unimplemented!() }
}
impl SubSpecImpl for NaiveDate {
    open spec fn obeys_sub_spec() -> bool { false }
    open spec fn sub_req(self, rhs: NaiveDate) -> bool { true }
    uninterp spec fn sub_spec(self, rhs: NaiveDate) -> TimeDelta;
}
impl core::ops::Sub for NaiveDate { type Output = TimeDelta;
    #[verifier::external_body]
    fn sub(self, rhs: NaiveDate) -> (r: TimeDelta) ensures r.days() == self.d() - rhs.d() { unimplemented!() } }

// ---------- HashMap shim ----------
pub trait KeyView { type KV; spec fn kview(&self) -> Self::KV; }
impl KeyView for String { type KV = Seq<char>; open spec fn kview(&self) -> Seq<char> { self@ } }
impl KeyView for str { type KV = Seq<char>; open spec fn kview(&self) -> Seq<char> { self@ } }
impl KeyView for usize { type KV = usize; open spec fn kview(&self) -> usize { *self } }
impl KeyView for (NaiveDate, String) { type KV = (int, Seq<char>); open spec fn kview(&self) -> (int, Seq<char>) { (self.0.d(), self.1@) } }

#[verifier::external_body]
#[verifier::reject_recursive_types(K)]
#[verifier::reject_recursive_types(V)]
pub struct HashMap<K: KeyView, V> { _k: core::marker::PhantomData<(K, V)> }

#[verifier::external_body]
#[verifier::reject_recursive_types(K)]
#[verifier::reject_recursive_types(V)]
pub struct Entry<'a, K: KeyView, V> { _k: core::marker::PhantomData<&'a mut (K, V)> }

impl<K: KeyView, V> HashMap<K, V> {
    pub uninterp spec fn view(&self) -> Map<K::KV, V>;

    #[verifier::external_body]
    pub fn new() -> (r: Self) ensures r@ == Map::<K::KV, V>::empty() { unimplemented!() }

    #[verifier::external_body]
    pub fn get<'a, Q: KeyView<KV = K::KV> + ?Sized>(&'a self, k: &Q) -> (r: Option<&'a V>)
        ensures match r { Some(v) => self@.contains_key(k.kview()) && *v == self@[k.kview()], None => !self@.contains_key(k.kview()) }
    { unimplemented!() }

    #[verifier::external_body]
    pub fn get_mut<'a, Q: KeyView<KV = K::KV> + ?Sized>(&'a mut self, k: &Q) -> (r: Option<&'a mut V>)
        ensures match r {
            Some(v) => old(self)@.contains_key(k.kview()) && *v == old(self)@[k.kview()] && final(self)@ == old(self)@.insert(k.kview(), *final(v)),
            None => !old(self)@.contains_key(k.kview()) && final(self)@ == old(self)@,
        }
    { unimplemented!() }

    #[verifier::external_body]
    pub fn insert(&mut self, k: K, v: V) -> (r: Option<V>)
        ensures final(self)@ == old(self)@.insert(k.kview(), v)
    { unimplemented!() }

    #[verifier::external_body]
    pub fn entry<'a>(&'a mut self, k: K) -> (r: Entry<'a, K, V>)
        ensures r.key() == k.kview(), r.map_before() == old(self)@, final(self)@ == r.map_final()
    { unimplemented!() }

    #[verifier::external_body]
    pub fn remove<Q: KeyView<KV = K::KV> + ?Sized>(&mut self, k: &Q) -> (r: Option<V>)
        ensures final(self)@ == old(self)@.remove(k.kview()),
          match r { Some(v) => old(self)@.contains_key(k.kview()) && v == old(self)@[k.kview()], None => !old(self)@.contains_key(k.kview()) }
    { unimplemented!() }
}

impl Default for Decimal {
    #[verifier::external_body]
    fn default() -> (r: Decimal) ensures r.v() == 0real { unimplemented!() }
}
impl<'a, K: KeyView, V> Entry<'a, K, V> {
    pub uninterp spec fn key(&self) -> K::KV;
    pub uninterp spec fn map_before(&self) -> Map<K::KV, V>;
    pub uninterp spec fn map_final(&self) -> Map<K::KV, V>;

    #[verifier::external_body]
    pub fn or_default(self) -> (r: &'a mut V) where V: Default
        ensures self.map_before().contains_key(self.key()) ==> *r == self.map_before()[self.key()],
                self.map_final() == self.map_before().insert(self.key(), *final(r))
    { unimplemented!() }
    #[verifier::external_body]
    pub fn or_insert_with<F: FnOnce() -> V>(self, f: F) -> (r: &'a mut V)
        requires f.requires(())
        ensures self.map_before().contains_key(self.key()) ==> *r == self.map_before()[self.key()],
                !self.map_before().contains_key(self.key()) ==> f.ensures((), *r),
                self.map_final() == self.map_before().insert(self.key(), *final(r))
    { unimplemented!() }
    #[verifier::external_body]
    pub fn or_insert(self, default: V) -> (r: &'a mut V)
        ensures *r == (if self.map_before().contains_key(self.key()) { self.map_before()[self.key()] } else { default }),
                self.map_final() == self.map_before().insert(self.key(), *final(r))
    { unimplemented!() }
}

impl<K: KeyView, V> Default for HashMap<K, V> {
    #[verifier::external_body]
    fn default() -> (r: Self) ensures r@ == Map::<K::KV, V>::empty() { unimplemented!() }
}
impl NaiveDate {
    #[verifier::external_body]
    pub fn cmp(&self, o: &NaiveDate) -> (r: core::cmp::Ordering) { unimplemented!() }
}
impl NegSpecImpl for Decimal {
    open spec fn obeys_neg_spec() -> bool { false }
    open spec fn neg_req(self) -> bool { true }
    uninterp spec fn neg_spec(self) -> Decimal;
}
impl core::ops::Neg for Decimal { type Output = Decimal;
    #[verifier::external_body]
    fn neg(self) -> (r: Decimal) ensures r.v() == -self.v() { unimplemented!() } }
impl Decimal {
    #[verifier::external_body]
    pub fn round_dp(self, dp: u32) -> (r: Decimal) { unimplemented!() }
    #[verifier::external_body]
    pub fn abs(self) -> (r: Decimal) ensures r.v() == (if self.v() >= 0real { self.v() } else { -self.v() }) { unimplemented!() }
}
impl<K: KeyView, V> HashMap<K, V> {
    #[verifier::external_body]
    pub fn values<'a>(&'a self) -> (r: Vec<&'a V>)
        ensures r@.len() == self@.dom().len(),
            forall|i: int| 0 <= i < r@.len() ==> exists|k: K::KV| self@.contains_key(k) && *r@[i] == self@[k],
    { unimplemented!() }
}
pub assume_specification<T: Copy>[ Option::<&T>::copied ](o: Option<&T>) -> (r: Option<T>)
    ensures r == (match o { Some(x) => Some(*x), None => None });
pub assume_specification<T: Default>[ core::mem::take::<T> ](dest: &mut T) -> (r: T)
    ensures r == *old(dest);
#[verifier::external_body]
pub fn verif_sort_by_date(v: &mut Vec<GbpTransaction>)
    ensures final(v)@.len() == old(v)@.len()
{ unimplemented!() }
