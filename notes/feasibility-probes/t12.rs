use vstd::prelude::*;
use vstd::std_specs::ops::*;
use vstd::std_specs::cmp::*;
verus! {

// ---------- Decimal shim: exact real arithmetic ----------
#[verifier::external_body]
pub struct Decimal { _p: u8 }
impl Decimal {
    pub uninterp spec fn v(&self) -> real;
    #[verifier::external_body]
    pub exec const ZERO: Decimal ensures Self::ZERO.v() == 0real { unimplemented!() }
    #[verifier::external_body]
    pub exec const ONE: Decimal ensures Self::ONE.v() == 1real { unimplemented!() }
    #[verifier::external_body]
    pub fn min(self, o: Decimal) -> (r: Decimal)
        ensures r.v() == (if self.v() <= o.v() { self.v() } else { o.v() })
    { unimplemented!() }
    #[verifier::external_body]
    pub fn max(self, o: Decimal) -> (r: Decimal)
        ensures r.v() == (if self.v() >= o.v() { self.v() } else { o.v() })
    { unimplemented!() }
}
#[verifier::external_body]
pub const fn dec_zero() -> (r: Decimal) ensures r.v() == 0real { unimplemented!() }
#[verifier::external_body]
pub const fn dec_one() -> (r: Decimal) ensures r.v() == 1real { unimplemented!() }

impl Copy for Decimal {}
impl Clone for Decimal {
    #[verifier::external_body]
    fn clone(&self) -> (r: Self) ensures r == *self { *self }
}
pub broadcast axiom fn dec_ext(a: Decimal, b: Decimal)
    ensures #[trigger] a.v() == #[trigger] b.v() ==> a == b;

impl AddSpecImpl for Decimal {
    open spec fn obeys_add_spec() -> bool { false }
    open spec fn add_req(self, rhs: Decimal) -> bool { true }
    uninterp spec fn add_spec(self, rhs: Decimal) -> Decimal;
}
impl core::ops::Add for Decimal { type Output = Decimal;
    #[verifier::external_body]
    fn add(self, rhs: Decimal) -> (r: Decimal) ensures r.v() == self.v() + rhs.v() { unimplemented!() } }
impl SubSpecImpl for Decimal {
    open spec fn obeys_sub_spec() -> bool { false }
    open spec fn sub_req(self, rhs: Decimal) -> bool { true }
    uninterp spec fn sub_spec(self, rhs: Decimal) -> Decimal;
}
impl core::ops::Sub for Decimal { type Output = Decimal;
    #[verifier::external_body]
    fn sub(self, rhs: Decimal) -> (r: Decimal) ensures r.v() == self.v() - rhs.v() { unimplemented!() } }
impl MulSpecImpl for Decimal {
    open spec fn obeys_mul_spec() -> bool { false }
    open spec fn mul_req(self, rhs: Decimal) -> bool { true }
    uninterp spec fn mul_spec(self, rhs: Decimal) -> Decimal;
}
impl core::ops::Mul for Decimal { type Output = Decimal;
    #[verifier::external_body]
    fn mul(self, rhs: Decimal) -> (r: Decimal) ensures r.v() == self.v() * rhs.v() { unimplemented!() } }
impl DivSpecImpl for Decimal {
    open spec fn obeys_div_spec() -> bool { false }
    open spec fn div_req(self, rhs: Decimal) -> bool { rhs.v() != 0real }
    uninterp spec fn div_spec(self, rhs: Decimal) -> Decimal;
}
impl core::ops::Div for Decimal { type Output = Decimal;
    #[verifier::external_body]
    fn div(self, rhs: Decimal) -> (r: Decimal) ensures r.v() == self.v() / rhs.v() { unimplemented!() } }

impl AddAssignSpecImpl for Decimal {
    open spec fn obeys_add_assign_spec() -> bool { false }
    open spec fn add_assign_req(self, rhs: Decimal) -> bool { true }
    uninterp spec fn add_assign_spec(self, rhs: Decimal) -> Decimal;
}
impl core::ops::AddAssign for Decimal {
    #[verifier::external_body]
    fn add_assign(&mut self, rhs: Decimal) ensures final(self).v() == old(self).v() + rhs.v() { unimplemented!() } }
impl SubAssignSpecImpl for Decimal {
    open spec fn obeys_sub_assign_spec() -> bool { false }
    open spec fn sub_assign_req(self, rhs: Decimal) -> bool { true }
    uninterp spec fn sub_assign_spec(self, rhs: Decimal) -> Decimal;
}
impl core::ops::SubAssign for Decimal {
    #[verifier::external_body]
    fn sub_assign(&mut self, rhs: Decimal) ensures final(self).v() == old(self).v() - rhs.v() { unimplemented!() } }

impl PartialEqSpecImpl for Decimal {
    open spec fn obeys_eq_spec() -> bool { true }
    open spec fn eq_spec(&self, other: &Decimal) -> bool { self.v() == other.v() }
}
impl PartialEq for Decimal {
    #[verifier::external_body]
    fn eq(&self, other: &Decimal) -> (r: bool) ensures r == (self.v() == other.v()) { unimplemented!() } }
impl Eq for Decimal {}
impl PartialOrdSpecImpl for Decimal {
    open spec fn obeys_partial_cmp_spec() -> bool { true }
    open spec fn partial_cmp_spec(&self, other: &Decimal) -> Option<core::cmp::Ordering> {
        if self.v() < other.v() { Some(core::cmp::Ordering::Less) }
        else if self.v() == other.v() { Some(core::cmp::Ordering::Equal) }
        else { Some(core::cmp::Ordering::Greater) }
    }
}
impl PartialOrd for Decimal {
    #[verifier::external_body]
    fn partial_cmp(&self, other: &Decimal) -> (r: Option<core::cmp::Ordering>) 
      ensures r == (if self.v() < other.v() { Some(core::cmp::Ordering::Less) }
        else if self.v() == other.v() { Some(core::cmp::Ordering::Equal) }
        else { Some(core::cmp::Ordering::Greater) })
    { unimplemented!() } }

// ---------- NaiveDate shim: day number ----------
#[verifier::external_body]
pub struct NaiveDate { _p: u8 }
impl NaiveDate { pub uninterp spec fn d(&self) -> int; }
impl Copy for NaiveDate {}
impl Clone for NaiveDate {
    #[verifier::external_body]
    fn clone(&self) -> (r: Self) ensures r == *self { *self }
}
impl PartialEqSpecImpl for NaiveDate {
    open spec fn obeys_eq_spec() -> bool { true }
    open spec fn eq_spec(&self, other: &NaiveDate) -> bool { self.d() == other.d() }
}
impl PartialEq for NaiveDate {
    #[verifier::external_body]
    fn eq(&self, other: &NaiveDate) -> (r: bool) ensures r == (self.d() == other.d()) { unimplemented!() } }
impl Eq for NaiveDate {}
impl PartialOrdSpecImpl for NaiveDate {
    open spec fn obeys_partial_cmp_spec() -> bool { true }
    open spec fn partial_cmp_spec(&self, other: &NaiveDate) -> Option<core::cmp::Ordering> {
        if self.d() < other.d() { Some(core::cmp::Ordering::Less) }
        else if self.d() == other.d() { Some(core::cmp::Ordering::Equal) }
        else { Some(core::cmp::Ordering::Greater) }
    }
}
impl PartialOrd for NaiveDate {
    #[verifier::external_body]
    fn partial_cmp(&self, other: &NaiveDate) -> (r: Option<core::cmp::Ordering>) 
      ensures r == (if self.d() < other.d() { Some(core::cmp::Ordering::Less) }
        else if self.d() == other.d() { Some(core::cmp::Ordering::Equal) }
        else { Some(core::cmp::Ordering::Greater) })
    { unimplemented!() } }

// ---------- more Decimal ops ----------
impl MulAssignSpecImpl for Decimal {
    open spec fn obeys_mul_assign_spec() -> bool { false }
    open spec fn mul_assign_req(self, rhs: Decimal) -> bool { true }
    uninterp spec fn mul_assign_spec(self, rhs: Decimal) -> Decimal;
}
impl core::ops::MulAssign for Decimal {
    #[verifier::external_body]
    fn mul_assign(&mut self, rhs: Decimal) ensures final(self).v() == old(self).v() * rhs.v() { unimplemented!() } }
impl DivAssignSpecImpl for Decimal {
    open spec fn obeys_div_assign_spec() -> bool { false }
    open spec fn div_assign_req(self, rhs: Decimal) -> bool { rhs.v() != 0real }
    uninterp spec fn div_assign_spec(self, rhs: Decimal) -> Decimal;
}
impl core::ops::DivAssign for Decimal {
    #[verifier::external_body]
    fn div_assign(&mut self, rhs: Decimal) ensures final(self).v() == old(self).v() / rhs.v() { unimplemented!() } }

// ---------- TimeDelta ----------
#[verifier::external_body]
pub struct TimeDelta { _p: u8 }
impl TimeDelta {
    pub uninterp spec fn days(&self) -> int;
    #[verifier::external_body]
    pub fn num_days(&self) -> (r: i64) ensures r as int == self.days() { unimplemented!() }
}
impl SubSpecImpl for NaiveDate {
    open spec fn obeys_sub_spec() -> bool { false }
    open spec fn sub_req(self, rhs: NaiveDate) -> bool { true }
    uninterp spec fn sub_spec(self, rhs: NaiveDate) -> TimeDelta;
}
impl core::ops::Sub for NaiveDate { type Output = TimeDelta;
    #[verifier::external_body]
    fn sub(self, rhs: NaiveDate) -> (r: TimeDelta) ensures r.days() == self.d() - rhs.d() { unimplemented!() } }

// ---------- HashMap shim ----------
pub trait KeyView { type KV; spec fn kview(&self) -> Self::KV; }
impl KeyView for String { type KV = Seq<char>; open spec fn kview(&self) -> Seq<char> { self@ } }
impl KeyView for str { type KV = Seq<char>; open spec fn kview(&self) -> Seq<char> { self@ } }
impl KeyView for usize { type KV = usize; open spec fn kview(&self) -> usize { *self } }
impl KeyView for (NaiveDate, String) { type KV = (int, Seq<char>); open spec fn kview(&self) -> (int, Seq<char>) { (self.0.d(), self.1@) } }

#[verifier::external_body]
#[verifier::reject_recursive_types(K)]
#[verifier::reject_recursive_types(V)]
pub struct HashMap<K: KeyView, V> { _k: core::marker::PhantomData<(K, V)> }

#[verifier::external_body]
#[verifier::reject_recursive_types(K)]
#[verifier::reject_recursive_types(V)]
pub struct Entry<'a, K: KeyView, V> { _k: core::marker::PhantomData<&'a mut (K, V)> }

impl<K: KeyView, V> HashMap<K, V> {
    pub uninterp spec fn view(&self) -> Map<K::KV, V>;

    #[verifier::external_body]
    pub fn new() -> (r: Self) ensures r@ == Map::<K::KV, V>::empty() { unimplemented!() }

    #[verifier::external_body]
    pub fn get<'a, Q: KeyView<KV = K::KV> + ?Sized>(&'a self, k: &Q) -> (r: Option<&'a V>)
        ensures match r { Some(v) => self@.contains_key(k.kview()) && *v == self@[k.kview()], None => !self@.contains_key(k.kview()) }
    { unimplemented!() }

    #[verifier::external_body]
    pub fn get_mut<'a, Q: KeyView<KV = K::KV> + ?Sized>(&'a mut self, k: &Q) -> (r: Option<&'a mut V>)
        ensures match r {
            Some(v) => old(self)@.contains_key(k.kview()) && *v == old(self)@[k.kview()] && final(self)@ == old(self)@.insert(k.kview(), *final(v)),
            None => !old(self)@.contains_key(k.kview()) && final(self)@ == old(self)@,
        }
    { unimplemented!() }

    #[verifier::external_body]
    pub fn insert(&mut self, k: K, v: V) -> (r: Option<V>)
        ensures final(self)@ == old(self)@.insert(k.kview(), v)
    { unimplemented!() }

    #[verifier::external_body]
    pub fn entry<'a>(&'a mut self, k: K) -> (r: Entry<'a, K, V>)
        ensures r.key() == k.kview(), r.map_before() == old(self)@, final(self)@ == r.map_final()
    { unimplemented!() }

    #[verifier::external_body]
    pub fn remove<Q: KeyView<KV = K::KV> + ?Sized>(&mut self, k: &Q) -> (r: Option<V>)
        ensures final(self)@ == old(self)@.remove(k.kview()),
          match r { Some(v) => old(self)@.contains_key(k.kview()) && v == old(self)@[k.kview()], None => !old(self)@.contains_key(k.kview()) }
    { unimplemented!() }
}

impl Default for Decimal {
    #[verifier::external_body]
    fn default() -> (r: Decimal) ensures r.v() == 0real { unimplemented!() }
}
impl<'a, K: KeyView, V> Entry<'a, K, V> {
    pub uninterp spec fn key(&self) -> K::KV;
    pub uninterp spec fn map_before(&self) -> Map<K::KV, V>;
    pub uninterp spec fn map_final(&self) -> Map<K::KV, V>;

    #[verifier::external_body]
    pub fn or_default(self) -> (r: &'a mut V) where V: Default
        ensures self.map_before().contains_key(self.key()) ==> *r == self.map_before()[self.key()],
                self.map_final() == self.map_before().insert(self.key(), *final(r))
    { unimplemented!() }
    #[verifier::external_body]
    pub fn or_insert_with<F: FnOnce() -> V>(self, f: F) -> (r: &'a mut V)
        requires f.requires(())
        ensures self.map_before().contains_key(self.key()) ==> *r == self.map_before()[self.key()],
                !self.map_before().contains_key(self.key()) ==> f.ensures((), *r),
                self.map_final() == self.map_before().insert(self.key(), *final(r))
    { unimplemented!() }
    #[verifier::external_body]
    pub fn or_insert(self, default: V) -> (r: &'a mut V)
        ensures *r == (if self.map_before().contains_key(self.key()) { self.map_before()[self.key()] } else { default }),
                self.map_final() == self.map_before().insert(self.key(), *final(r))
    { unimplemented!() }
}

impl<K: KeyView, V> Default for HashMap<K, V> {
    #[verifier::external_body]
    fn default() -> (r: Self) ensures r@ == Map::<K::KV, V>::empty() { unimplemented!() }
}
impl NaiveDate {
    #[verifier::external_body]
    pub fn cmp(&self, o: &NaiveDate) -> (r: core::cmp::Ordering) { unimplemented!() }
}

pub enum CgtError { InvalidTransaction(String), InvalidDateYear { year: i32 }, InvalidTaxYear(u16), UnsupportedExemptionYear(u16), MissingFxRate { currency: String, year: i32, month: u32 }, ConfigError(String) }
#[verifier::external_body]
pub fn verif_fmt() -> String { unimplemented!() }
#[verifier::external_body]
pub fn string_clone(s: &String) -> (r: String) ensures r@ == s@ { s.clone() }
pub struct GbpTransaction {
    pub date: NaiveDate,
    pub ticker: String,
    pub operation: Operation<Decimal>,
}
pub enum Operation<M: Default> {
    Buy {
        amount: Decimal,
        price: M,
        fees: M,
    },
    Sell {
        amount: Decimal,
        price: M,
        fees: M,
    },
    Dividend {
        total_value: M,
        tax_paid: M,
    },
    Accumulation {
        amount: Decimal,
        total_value: M,
        tax_paid: M,
    },
    CapReturn {
        amount: Decimal,
        total_value: M,
        fees: M,
    },
    Split {
        ratio: Decimal,
    },
    Unsplit {
        ratio: Decimal,
    },
}
pub struct Section104Holding {
    pub ticker: String,
    pub quantity: Decimal,
    pub total_cost: Decimal,
}
pub enum MatchRule {
    SameDay,
    BedAndBreakfast,
    Section104,
}
pub struct Match {
    pub rule: MatchRule,
    pub quantity: Decimal,
    pub allowable_cost: Decimal,
    pub gain_or_loss: Decimal,
    pub acquisition_date: Option<NaiveDate>,
}
pub mod matcher {
use super::*;
pub mod acquisition_ledger { use super::*;


pub struct AcquisitionLot {
    pub transaction_idx: usize,
    pub date: NaiveDate,
    pub original_amount: Decimal,
    pub price: Decimal,
    pub expenses: Decimal,
    pub cost_offset: Decimal,
    pub consumed: Decimal,
    pub reserved: Decimal,
    pub in_pool: Decimal,
}

pub struct AcquisitionExtras {
    pub cost_offset: Decimal,
    pub reserved: Decimal,
}

impl AcquisitionExtras {
    pub fn new(cost_offset: Decimal, reserved: Decimal) -> Self {
        Self {
            cost_offset,
            reserved,
        }
    }
}

impl AcquisitionLot {
    pub fn new(
        transaction_idx: usize,
        date: NaiveDate,
        amount: Decimal,
        price: Decimal,
        expenses: Decimal,
        cost_offset: Decimal,
        reserved: Decimal,
    ) -> Self {
        Self {
            transaction_idx,
            date,
            original_amount: amount,
            price,
            expenses,
            cost_offset,
            consumed: Decimal::ZERO,
            reserved,
            in_pool: Decimal::ZERO,
        }
    }

    pub fn base_cost(&self) -> Decimal {
        (self.original_amount * self.price) + self.expenses
    }

    pub fn adjusted_cost(&self) -> Decimal {
        self.base_cost() + self.cost_offset
    }

    pub fn adjusted_unit_cost(&self) -> Decimal {
        if self.original_amount != Decimal::ZERO {
            self.adjusted_cost() / self.original_amount
        } else {
            Decimal::ZERO
        }
    }

    pub fn available(&self) -> Decimal {
        self.original_amount - self.consumed - self.reserved - self.in_pool
    }

    pub fn held_for_adjustment(&self) -> Decimal {
        self.original_amount - self.consumed
    }

    pub fn consume(&mut self, amount: Decimal) {
        self.consumed += amount;
    }

    pub fn move_to_pool(&mut self, amount: Decimal) {
        self.in_pool += amount;
    }
}

pub struct AcquisitionLedger {
    lots: Vec<AcquisitionLot>,
}

impl AcquisitionLedger {
    pub fn new() -> Self {
        Self { lots: Vec::new() }
    }

    pub fn add_acquisition(
        &mut self,
        transaction_idx: usize,
        date: NaiveDate,
        amount: Decimal,
        price: Decimal,
        expenses: Decimal,
        extras: AcquisitionExtras,
    ) {
        self.lots.push(AcquisitionLot::new(
            transaction_idx,
            date,
            amount,
            price,
            expenses,
            extras.cost_offset,
            extras.reserved,
        ));
    }

    pub fn remaining_for_date(&self, date: NaiveDate) -> Decimal {
        { let mut __acc = Decimal::ZERO; for lot in self.lots.iter() { if lot.date == date { __acc = __acc + lot.available(); } } __acc }
    }

    pub fn cost_for_date(&self, date: NaiveDate, amount: Decimal) -> Decimal {
        let mut remaining = amount;
        let mut total_cost = Decimal::ZERO;

        for lot in &self.lots {
            if lot.date == date && remaining > Decimal::ZERO {
                let available = lot.available();
                if available > Decimal::ZERO {
                    let to_use = remaining.min(available);
                    total_cost += to_use * lot.adjusted_unit_cost();
                    remaining -= to_use;
                }
            }
        }

        total_cost
    }

    pub fn apply_cost_adjustment(&mut self, adjustment: Decimal) {
        let total_held: Decimal = { let mut __acc = Decimal::ZERO; for lot in self.lots.iter() { __acc = __acc + lot.held_for_adjustment(); } __acc };
        if total_held == Decimal::ZERO {
            return;
        }

        for lot in self.lots.iter_mut() {
            let held = lot.held_for_adjustment();
            if held > Decimal::ZERO {
                let apportioned = adjustment * (held / total_held);
                lot.cost_offset += apportioned;
            }
        }
    }

    pub fn total_adjusted_cost(&self) -> Decimal {
        { let mut __acc = Decimal::ZERO; for lot in self.lots.iter() { if lot.held_for_adjustment() > Decimal::ZERO { __acc = __acc + lot.adjusted_cost(); } } __acc }
    }

    pub fn consume_shares_on_date(&mut self, date: NaiveDate, amount: Decimal) -> Decimal {
        let mut total_available = Decimal::ZERO;
        let mut total_cost = Decimal::ZERO;
        let mut lots_on_date = Vec::new();

        for idx in 0..self.lots.len() { let lot = &self.lots[idx];
            if lot.date == date {
                let available = lot.available();
                if available > Decimal::ZERO {
                    total_available += available;
                    total_cost += available * lot.adjusted_unit_cost();
                    lots_on_date.push((idx, available));
                }
            }
        }

        if total_available == Decimal::ZERO || amount <= Decimal::ZERO {
            return Decimal::ZERO;
        }

        let matched = amount.min(total_available);
        let ratio = matched / total_available;
        let mut remaining = matched;

        for pos in 0..lots_on_date.len() { let (idx, available) = &lots_on_date[pos];
            let to_consume = if pos + 1 == lots_on_date.len() {
                remaining.min(*available)
            } else {
                let proportional = *available * ratio;
                if proportional > remaining {
                    remaining
                } else {
                    proportional
                }
            };

            if to_consume > Decimal::ZERO {
                if let Some(lot) = self.lots.get_mut(*idx) {
                    lot.consume(to_consume);
                }
                remaining -= to_consume;
            }
        }

        let average_cost = total_cost / total_available;
        matched * average_cost
    }

    pub fn consume_shares_before_date(&mut self, date: NaiveDate, amount: Decimal) {
        let mut remaining = amount;

        for lot in self.lots.iter_mut() {
            if lot.date < date && remaining > Decimal::ZERO {
                let available = lot.available();
                if available > Decimal::ZERO {
                    let to_consume = remaining.min(available);
                    lot.consume(to_consume);
                    remaining -= to_consume;
                }
            }
        }
    }

    pub fn consume_for_pool(&mut self, date: NaiveDate, amount: Decimal) {
        let mut remaining = amount;

        for lot in self.lots.iter_mut() {
            if lot.date == date && remaining > Decimal::ZERO {
                let available = lot.available();
                if available > Decimal::ZERO {
                    let to_move = remaining.min(available);
                    lot.move_to_pool(to_move);
                    remaining -= to_move;
                }
            }
        }
    }

    pub fn lots(&self) -> &[AcquisitionLot] {
        &self.lots
    }
}
}
use acquisition_ledger::*;
pub struct MatchResult {
    pub disposal_date: NaiveDate,
    pub disposal_ticker: String,
    /// Gross proceeds before sale fees (quantity × unit price).
    pub gross_proceeds: Decimal,
    /// Net proceeds after sale fees (gross_proceeds - fees).
    pub proceeds: Decimal,
    /// The match detail: rule, quantity, cost, gain/loss, acquisition date.
    pub match_detail: Match,
}
pub(crate) struct ProportionalProceeds {
    pub(crate) gross_proceeds: Decimal,
    pub(crate) fees: Decimal,
    pub(crate) net_proceeds: Decimal,
}
pub(crate) fn compute_proceeds(
    matched_qty: Decimal,
    sell_qty: Decimal,
    sell_price: Decimal,
    sell_fees: Decimal,
) -> (r: ProportionalProceeds)
    ensures
        sell_qty.v() == 0real ==> r.gross_proceeds.v() == 0real && r.fees.v() == 0real && r.net_proceeds.v() == 0real,
        sell_qty.v() != 0real ==> r.gross_proceeds.v() == matched_qty.v() * sell_price.v()
            && r.fees.v() == sell_fees.v() * (matched_qty.v() / sell_qty.v())
            && r.net_proceeds.v() == r.gross_proceeds.v() - r.fees.v(),
{
    if sell_qty == Decimal::ZERO {
        return ProportionalProceeds {
            gross_proceeds: Decimal::ZERO,
            fees: Decimal::ZERO,
            net_proceeds: Decimal::ZERO,
        };
    }

    let proportion = matched_qty / sell_qty;
    let gross_proceeds = matched_qty * sell_price;
    let fees = sell_fees * proportion;
    let net_proceeds = gross_proceeds - fees;

    ProportionalProceeds {
        gross_proceeds,
        fees,
        net_proceeds,
    }
}
pub struct Matcher {
    /// Per-ticker acquisition ledgers
    ledgers: HashMap<String, AcquisitionLedger>,
    /// Accumulated match results
    matches: Vec<MatchResult>,
    /// Section 104 pools (remaining after same-day and B&B)
    pools: HashMap<String, Section104Holding>,
}
impl Matcher {
    pub closed spec fn sp(&self) -> Map<Seq<char>, Section104Holding> { self.pools@ }
    pub closed spec fn sl(&self) -> Map<Seq<char>, AcquisitionLedger> { self.ledgers@ }
    pub closed spec fn sm(&self) -> Seq<MatchResult> { self.matches@ }

pub(super) fn get_ledger_mut(&mut self, ticker: &str) -> Option<&mut AcquisitionLedger> {
        self.ledgers.get_mut(ticker)
    }
pub(super) fn get_pool_mut(&mut self, ticker: &str) -> (r: Option<&mut Section104Holding>)
        ensures
            final(self).sl() == old(self).sl(), final(self).sm() == old(self).sm(),
            match r {
            Some(v) => old(self).sp().contains_key(ticker@) && *v == old(self).sp()[ticker@] && final(self).sp() == old(self).sp().insert(ticker@, *final(v)),
            None => !old(self).sp().contains_key(ticker@) && final(self).sp() == old(self).sp(),
        }
    {
        self.pools.get_mut(ticker)
    }
}

pub mod section104 { use super::*;


pub fn match_section_104(
    matcher: &mut Matcher,
    sell_tx: &GbpTransaction,
    remaining: &mut Decimal,
    total_sell_amount: Decimal,
) -> (res: Result<Option<MatchResult>, CgtError>)
    requires
        sell_tx.operation is Sell,
    ensures
        res is Ok,
        final(matcher).sl() == old(matcher).sl(),
        final(matcher).sm() == old(matcher).sm(),
        forall|k: Seq<char>| k != sell_tx.ticker@ ==> (#[trigger] final(matcher).sp().contains_key(k) == old(matcher).sp().contains_key(k)),
        forall|k: Seq<char>| k != sell_tx.ticker@ && old(matcher).sp().contains_key(k) ==> #[trigger] final(matcher).sp()[k] == old(matcher).sp()[k],
        match res->Ok_0 {
            Some(m) => {
                let t = sell_tx.ticker@;
                let p0 = old(matcher).sp()[t];
                let p1 = final(matcher).sp()[t];
                let q = m.match_detail.quantity.v();
                &&& old(matcher).sp().contains_key(t) && final(matcher).sp().contains_key(t)
                &&& m.match_detail.rule == MatchRule::Section104
                &&& m.match_detail.acquisition_date is None
                &&& q == (if old(remaining).v() <= p0.quantity.v() { old(remaining).v() } else { p0.quantity.v() })
                &&& q != 0real
                &&& final(remaining).v() == old(remaining).v() - q
                &&& p1.quantity.v() == p0.quantity.v() - q
                &&& p1.total_cost.v() == p0.total_cost.v() - m.match_detail.allowable_cost.v()
                &&& m.match_detail.allowable_cost.v() == q * (p0.total_cost.v() / p0.quantity.v())
                &&& p1.ticker == p0.ticker
                &&& m.gross_proceeds.v() == q * sell_tx.operation->Sell_price.v()
                &&& m.proceeds.v() == m.gross_proceeds.v() - sell_tx.operation->Sell_fees.v() * (q / total_sell_amount.v())
                &&& m.match_detail.gain_or_loss.v() == m.proceeds.v() - m.match_detail.allowable_cost.v()
                &&& m.disposal_date == sell_tx.date
                &&& m.disposal_ticker@ == sell_tx.ticker@
            },
            None => final(matcher).sp() == old(matcher).sp() && final(remaining).v() == old(remaining).v(),
        },
{
    if *remaining == Decimal::ZERO {
        return Ok(None);
    }

    let Some(pool) = matcher.get_pool_mut(&sell_tx.ticker) else {
        return Ok(None);
    };

    if pool.quantity == Decimal::ZERO {
        return Ok(None);
    }

    if total_sell_amount == Decimal::ZERO {
        return Ok(None);
    }

    let matched_qty = (*remaining).min(pool.quantity);
    if matched_qty == Decimal::ZERO {
        return Ok(None);
    }

    let Operation::Sell {
        price: sell_price,
        fees: sell_fees,
        ..
    } = &sell_tx.operation
    else {
        return Ok(None);
    };

    let unit_cost = if pool.quantity != Decimal::ZERO {
        pool.total_cost / pool.quantity
    } else {
        Decimal::ZERO
    };
    let cost = matched_qty * unit_cost;

    pool.quantity -= matched_qty;
    pool.total_cost -= cost;
    *remaining -= matched_qty;

    let proceeds = compute_proceeds(matched_qty, total_sell_amount, *sell_price, *sell_fees);

    let gain_or_loss = proceeds.net_proceeds - cost;

    Ok(Some(MatchResult {
        disposal_date: sell_tx.date,
        disposal_ticker: string_clone(&sell_tx.ticker),
        gross_proceeds: proceeds.gross_proceeds,
        proceeds: proceeds.net_proceeds,
        match_detail: Match {
            rule: MatchRule::Section104,
            quantity: matched_qty,
            allowable_cost: cost,
            gain_or_loss,
            acquisition_date: None,
        },
    }))
}
}
}
} // verus!
fn main(){}
