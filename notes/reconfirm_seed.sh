#!/bin/bash
# usage: reconfirm_seed.sh <ID> [crate] -- re-confirm a stored seed against the current /repo HEAD in a fresh scratch worktree
ID=$1; CRATE=${2:-cgt-core}; WT=/tmp/rwt-$ID; D=/verif/seeded/$ID; LOG=$D/reconfirm.log
git -C /repo worktree add --detach $WT HEAD >/dev/null 2>&1 || exit 9
cp -r /repo/target $WT/target
cd $WT; : > $LOG; echo "against /repo $(git -C /repo log --format=%h -1)" >> $LOG
git apply $D/patch.diff || { echo "patch does not apply" >> $LOG; cd /; git -C /repo worktree remove --force $WT; exit 8; }
DEMO=$(grep -o "crates/[a-z-]*/tests/[a-z_0-9]*\.rs" $D/demo.rs | head -1); DEMO=${DEMO:-crates/$CRATE/tests/seeded_demo.rs}; T=$(basename $DEMO .rs)
echo "== full suite with the change (demo excluded)" >> $LOG
cargo test --workspace --no-fail-fast --offline 2>&1 | grep "^test result\|FAILED\|failed" | awk '/test result/ {p+=$4; f+=$6} !/test result/ {print} END {print "suite: passed",p,"failed",f}' >> $LOG
cp $D/demo.rs $WT/$DEMO
echo "== demo with the change (must fail)" >> $LOG; cargo test -p $CRATE --test $T --offline 2>&1 | grep "^test \|test result" >> $LOG
git apply -R $D/patch.diff
echo "== demo without the change (must pass)" >> $LOG; cargo test -p $CRATE --test $T --offline 2>&1 | grep "^test \|test result" >> $LOG
cd /; git -C /repo worktree remove --force $WT; echo DONE >> $LOG
