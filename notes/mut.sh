#!/bin/bash
# usage: mut.sh <unit> <repo-rel-file> <sed-expr>   -- apply one mutation to a scratch copy and run the unit in dev mode
set -e
rm -rf /tmp/mrepo && mkdir -p /tmp/mrepo && cp -r /repo/crates /tmp/mrepo/ && cp /repo/Cargo.lock /repo/Cargo.toml /tmp/mrepo/
sed -i "$3" /tmp/mrepo/$2
if diff -q /repo/$2 /tmp/mrepo/$2 >/dev/null; then echo "MUTATION DID NOT APPLY"; exit 3; fi
cd /verif && VERIF_REPO=/tmp/mrepo ./check --dev $1 2>&1 | grep "^verus\|^-- \|Unsupported\|COMPILE"
