#!/bin/bash
# usage: confirm_seed.sh C05 [crate]  -- confirm a sub-agent's seeded change in its scratch worktree, then store it under /verif/seeded/<id>
ID=$1; CRATE=${2:-cgt-core}; WT=/tmp/wt-$ID; SD=/tmp/seed-$ID; OUT=/verif/seeded/$ID
mkdir -p $OUT; LOG=$OUT/confirm.log; : > $LOG
cd $WT || exit 9
git checkout -q -- . ; git apply $SD/patch.diff || { echo "patch does not apply" >> $LOG; exit 8; }
DEMO=$(grep -o "crates/[a-z-]*/tests/[a-z_0-9]*\.rs" $SD/demo.rs | head -1); DEMO=${DEMO:-crates/$CRATE/tests/seeded_demo.rs}
cp $SD/demo.rs $WT/$DEMO
TNAME=$(basename $DEMO .rs)
echo "== full suite with the change (demo excluded)" >> $LOG
mv $WT/$DEMO /tmp/demo-$ID.rs
cargo test --workspace --no-fail-fast --offline 2>&1 | grep "^test result\|FAILED\|failed" | awk '/test result/ {p+=$4; f+=$6} !/test result/ {print} END {print "suite: passed",p,"failed",f}' >> $LOG
cp /tmp/demo-$ID.rs $WT/$DEMO
echo "== demo with the change (must fail)" >> $LOG
cargo test -p $CRATE --test $TNAME --offline 2>&1 | grep "^test \|test result" >> $LOG
git apply -R $SD/patch.diff
echo "== demo without the change (must pass)" >> $LOG
cargo test -p $CRATE --test $TNAME --offline 2>&1 | grep "^test \|test result" >> $LOG
cp $SD/patch.diff $SD/demo.rs $OUT/; cp $SD/notes.md $OUT/agent-notes.md
echo "demo placed at: $DEMO" >> $LOG
cd /; git -C /repo worktree remove --force $WT; rm -rf $SD /tmp/demo-$ID.rs
echo DONE >> $LOG
