// ---- spec/awards_spec.rs : C19, from the property text ----
verus! {
/// the entry used for a deposit on day d: the vest date equal to d, else the closest earlier date at most 7 days back
pub open spec fn has_entry(m: Map<(Seq<char>, int), Decimal>, sym: Seq<char>, d: int) -> bool { m.contains_key((sym, d)) }
/// k is the least look-back (0..=7) with an entry
pub open spec fn least_back(m: Map<(Seq<char>, int), Decimal>, sym: Seq<char>, d: int, k: int) -> bool {
    0 <= k <= 7 && has_entry(m, sym, d - k) && forall|x: int| d - k < x <= d ==> !#[trigger] has_entry(m, sym, x)
}
pub open spec fn none_within_7(m: Map<(Seq<char>, int), Decimal>, sym: Seq<char>, d: int) -> bool {
    forall|x: int| d - 7 <= x <= d ==> !#[trigger] has_entry(m, sym, x)
}
} // verus!
