// ---- spec/fx_spec.rs : C08, taken from the property text ----
verus! {
use crate::cgt_money::*;
use crate::models::*;

/// every cached rate is positive (established by parse_monthly_rates, which rejects non-positive rates)
pub open spec fn rates_positive(m: Map<(int, int, int), RateEntry>) -> bool {
    forall|k: (int, int, int)| #[trigger] m.contains_key(k) ==> m[k].rate_per_gbp.v() > 0real
}
/// C08.insert: loading a list of entries is a left fold of inserts: a later entry replaces an earlier one with the same (currency, year, month), nothing else changes
pub open spec fn fold_insert(m: Map<(int, int, int), RateEntry>, s: Seq<RateEntry>) -> Map<(int, int, int), RateEntry>
    decreases s.len()
{
    if s.len() == 0 { m } else { fold_insert(m, s.drop_last()).insert(s.last().key.kview(), s.last()) }
}
pub proof fn lemma_fold_push(m: Map<(int, int, int), RateEntry>, s: Seq<RateEntry>, x: RateEntry)
    ensures fold_insert(m, s.push(x)) == fold_insert(m, s).insert(x.key.kview(), x)
{
    assert(s.push(x).drop_last() =~= s);
}
/// C08.div_safe: a cache built from positive rates holds only positive rates (parse_monthly_rates returns only such entries: unit rates)
pub open spec fn entries_positive(s: Seq<RateEntry>) -> bool { forall|i: int| 0 <= i < s.len() ==> (#[trigger] s[i]).rate_per_gbp.v() > 0real }
pub proof fn lemma_fold_positive(m: Map<(int, int, int), RateEntry>, s: Seq<RateEntry>)
    requires rates_positive(m), entries_positive(s),
    ensures rates_positive(fold_insert(m, s)),
    decreases s.len(),
{
    if s.len() > 0 {
        assert(entries_positive(s.drop_last())) by { assert forall|i: int| 0 <= i < s.drop_last().len() implies (#[trigger] s.drop_last()[i]).rate_per_gbp.v() > 0real by { assert(s.drop_last()[i] == s[i]); } }
        lemma_fold_positive(m, s.drop_last());
        assert(s.last() == s[s.len() - 1]);
    }
}
/// C08: GBP unchanged; foreign: divide by the rate of (currency, year, month) of the transaction's own date, Err when absent
pub open spec fn conv(a: CurrencyAmount, date: NaiveDate, rates: Option<Map<(int, int, int), RateEntry>>) -> Result<real, ()> {
    if a.currency.id() == gbp_id() { Ok(a.amount.v()) }
    else {
        match rates {
            None => Err(()),
            Some(m) => {
                let k = (a.currency.id(), year_of(date.d()), month_of(date.d()));
                if m.contains_key(k) { Ok(a.amount.v() / m[k].rate_per_gbp.v()) } else { Err(()) }
            }
        }
    }
}
/// the conversion agrees with `conv` (Ok values equal, Err exactly when conv is Err)
pub open spec fn conv_agrees(r: Result<Decimal, crate::error::CgtError>, c: Result<real, ()>) -> bool {
    (r is Ok <==> c is Ok) && (r is Ok ==> r->Ok_0.v() == c->Ok_0)
}
pub open spec fn op_fields_ok(src: Operation<CurrencyAmount>, dst: Operation<Decimal>, date: NaiveDate, rates: Option<Map<(int, int, int), RateEntry>>) -> bool {
    match src {
        Operation::Buy { amount, price, fees } => dst is Buy && dst->Buy_amount == amount
            && conv(price, date, rates) == Ok::<real, ()>(dst->Buy_price.v()) && conv(fees, date, rates) == Ok::<real, ()>(dst->Buy_fees.v()),
        Operation::Sell { amount, price, fees } => dst is Sell && dst->Sell_amount == amount
            && conv(price, date, rates) == Ok::<real, ()>(dst->Sell_price.v()) && conv(fees, date, rates) == Ok::<real, ()>(dst->Sell_fees.v()),
        Operation::Dividend { total_value, tax_paid } => dst is Dividend
            && conv(total_value, date, rates) == Ok::<real, ()>(dst->Dividend_total_value.v()) && conv(tax_paid, date, rates) == Ok::<real, ()>(dst->Dividend_tax_paid.v()),
        Operation::Accumulation { amount, total_value, tax_paid } => dst is Accumulation && dst->Accumulation_amount == amount
            && conv(total_value, date, rates) == Ok::<real, ()>(dst->Accumulation_total_value.v()) && conv(tax_paid, date, rates) == Ok::<real, ()>(dst->Accumulation_tax_paid.v()),
        Operation::CapReturn { amount, total_value, fees } => dst is CapReturn && dst->CapReturn_amount == amount
            && conv(total_value, date, rates) == Ok::<real, ()>(dst->CapReturn_total_value.v()) && conv(fees, date, rates) == Ok::<real, ()>(dst->CapReturn_fees.v()),
        Operation::Split { ratio } => dst is Split && dst->Split_ratio == ratio,
        Operation::Unsplit { ratio } => dst is Unsplit && dst->Unsplit_ratio == ratio,
    }
}
/// some monetary field of the operation cannot be converted
pub open spec fn op_has_unconvertible(src: Operation<CurrencyAmount>, date: NaiveDate, rates: Option<Map<(int, int, int), RateEntry>>) -> bool {
    match src {
        Operation::Buy { amount, price, fees } => conv(price, date, rates) is Err || conv(fees, date, rates) is Err,
        Operation::Sell { amount, price, fees } => conv(price, date, rates) is Err || conv(fees, date, rates) is Err,
        Operation::Dividend { total_value, tax_paid } => conv(total_value, date, rates) is Err || conv(tax_paid, date, rates) is Err,
        Operation::Accumulation { amount, total_value, tax_paid } => conv(total_value, date, rates) is Err || conv(tax_paid, date, rates) is Err,
        Operation::CapReturn { amount, total_value, fees } => conv(total_value, date, rates) is Err || conv(fees, date, rates) is Err,
        _ => false,
    }
}
pub open spec fn tx_ok(src: Transaction, dst: GbpTransaction, rates: Option<Map<(int, int, int), RateEntry>>) -> bool {
    dst.date == src.date && dst.ticker@ == src.ticker@ && op_fields_ok(src.operation, dst.operation, src.date, rates)
}
} // verus!
