// ---- spec/matcher_spec.rs : spec functions and lemmas (hand-written from the property text) ----
verus! {

use crate::matcher::acquisition_ledger::AcquisitionLot;
use crate::models::*;
use crate::matcher::MatchResult;

// ---------- acquisition lots ----------
pub open spec fn lot_avail(l: AcquisitionLot) -> real { l.original_amount.v() - l.consumed.v() - l.reserved.v() - l.in_pool.v() }
pub open spec fn lot_held(l: AcquisitionLot) -> real { l.original_amount.v() - l.consumed.v() }
pub open spec fn lot_base_cost(l: AcquisitionLot) -> real { l.original_amount.v() * l.price.v() + l.expenses.v() }
pub open spec fn lot_adj_cost(l: AcquisitionLot) -> real { lot_base_cost(l) + l.cost_offset.v() }
/// the one unit cost used by same-day, 30-day and pooling alike (C03.lot_unit)
pub open spec fn lot_unit(l: AcquisitionLot) -> real {
    if l.original_amount.v() != 0real { lot_adj_cost(l) / l.original_amount.v() } else { 0real }
}
/// every share of a lot is in exactly one place and no counter is negative
pub open spec fn wf_lot(l: AcquisitionLot) -> bool {
    &&& l.original_amount.v() >= 0real
    &&& l.consumed.v() >= 0real
    &&& l.reserved.v() >= 0real
    &&& l.in_pool.v() >= 0real
    &&& l.consumed.v() + l.reserved.v() + l.in_pool.v() <= l.original_amount.v()
}
pub open spec fn wf_lots(s: Seq<AcquisitionLot>) -> bool { forall|i: int| 0 <= i < s.len() ==> wf_lot(#[trigger] s[i]) }

/// same lot except for the `consumed` counter
pub open spec fn lot_same_but_consumed(a: AcquisitionLot, b: AcquisitionLot) -> bool {
    a.transaction_idx == b.transaction_idx && a.date == b.date && a.original_amount == b.original_amount && a.price == b.price
    && a.expenses == b.expenses && a.cost_offset == b.cost_offset && a.reserved == b.reserved && a.in_pool == b.in_pool
}
pub open spec fn lot_same_but_in_pool(a: AcquisitionLot, b: AcquisitionLot) -> bool {
    a.transaction_idx == b.transaction_idx && a.date == b.date && a.original_amount == b.original_amount && a.price == b.price
    && a.expenses == b.expenses && a.cost_offset == b.cost_offset && a.reserved == b.reserved && a.consumed == b.consumed
}
pub open spec fn lot_same_but_offset(a: AcquisitionLot, b: AcquisitionLot) -> bool {
    a.transaction_idx == b.transaction_idx && a.date == b.date && a.original_amount == b.original_amount && a.price == b.price
    && a.expenses == b.expenses && a.consumed == b.consumed && a.reserved == b.reserved && a.in_pool == b.in_pool
}

pub open spec fn f_avail_on(date: int) -> spec_fn(AcquisitionLot) -> real {
    |l: AcquisitionLot| if l.date.d() == date { lot_avail(l) } else { 0real }
}
/// available shares counted the way the code counts them for matching (only positive availability)
pub open spec fn f_pos_avail_on(date: int) -> spec_fn(AcquisitionLot) -> real {
    |l: AcquisitionLot| if l.date.d() == date && lot_avail(l) > 0real { lot_avail(l) } else { 0real }
}
pub open spec fn f_pos_avail_cost_on(date: int) -> spec_fn(AcquisitionLot) -> real {
    |l: AcquisitionLot| if l.date.d() == date && lot_avail(l) > 0real { lot_avail(l) * lot_unit(l) } else { 0real }
}
pub open spec fn f_held() -> spec_fn(AcquisitionLot) -> real { |l: AcquisitionLot| lot_held(l) }
pub open spec fn f_pos_held() -> spec_fn(AcquisitionLot) -> real { |l: AcquisitionLot| if lot_held(l) > 0real { lot_held(l) } else { 0real } }
pub open spec fn f_offset() -> spec_fn(AcquisitionLot) -> real { |l: AcquisitionLot| l.cost_offset.v() }
pub open spec fn f_held_adj_cost() -> spec_fn(AcquisitionLot) -> real { |l: AcquisitionLot| if lot_held(l) > 0real { lot_adj_cost(l) } else { 0real } }
pub open spec fn f_consumed() -> spec_fn(AcquisitionLot) -> real { |l: AcquisitionLot| l.consumed.v() }
pub open spec fn f_in_pool() -> spec_fn(AcquisitionLot) -> real { |l: AcquisitionLot| l.in_pool.v() }
pub open spec fn f_consumed_cost() -> spec_fn(AcquisitionLot) -> real { |l: AcquisitionLot| l.consumed.v() * lot_unit(l) }
pub open spec fn f_in_pool_cost() -> spec_fn(AcquisitionLot) -> real { |l: AcquisitionLot| l.in_pool.v() * lot_unit(l) }

pub open spec fn avail_on(s: Seq<AcquisitionLot>, date: int) -> real { rsum(s, f_avail_on(date)) }
pub open spec fn pos_avail_on(s: Seq<AcquisitionLot>, date: int) -> real { rsum(s, f_pos_avail_on(date)) }

// same-day identification, as functions of the ledger before the call only (no executable local is named)
pub open spec fn sd_t(lots: Seq<AcquisitionLot>, date: NaiveDate) -> real { avail_on(lots, date.d()) }
pub open spec fn sd_m(lots: Seq<AcquisitionLot>, date: NaiveDate, amount: Decimal) -> real { if amount.v() <= sd_t(lots, date) { amount.v() } else { sd_t(lots, date) } }
pub open spec fn sd_rho(lots: Seq<AcquisitionLot>, date: NaiveDate, amount: Decimal) -> real { sd_m(lots, date, amount) / sd_t(lots, date) }


/// under wf, counting only positive availability is the same as counting all of it
pub proof fn lemma_pos_avail_eq(s: Seq<AcquisitionLot>, date: int)
    requires wf_lots(s)
    ensures pos_avail_on(s, date) == avail_on(s, date), avail_on(s, date) >= 0real
{
    rsum_ext(s, s, f_pos_avail_on(date), f_avail_on(date));
    rsum_nonneg(s, f_avail_on(date));
}


// ---------- same-day lots: the lots of one date that still have shares, in ledger order ----------
pub open spec fn lot_matching(l: AcquisitionLot, d: int) -> bool { l.date.d() == d && lot_avail(l) > 0real }
pub open spec fn mi(s: Seq<AcquisitionLot>, d: int) -> Seq<int>
    decreases s.len()
{
    if s.len() == 0 { Seq::<int>::empty() } else {
        let r = mi(s.drop_last(), d);
        if lot_matching(s.last(), d) { r.push(s.len() - 1) } else { r }
    }
}
pub proof fn lemma_mi(s: Seq<AcquisitionLot>, d: int)
    ensures
        forall|j: int| 0 <= j < mi(s, d).len() ==> 0 <= #[trigger] mi(s, d)[j] < s.len() && lot_matching(s[mi(s, d)[j]], d),
        forall|j1: int, j2: int| 0 <= j1 < j2 < mi(s, d).len() ==> #[trigger] mi(s, d)[j1] < #[trigger] mi(s, d)[j2],
        forall|k: int| 0 <= k < s.len() && lot_matching(#[trigger] s[k], d) ==> exists|j: int| 0 <= j < mi(s, d).len() && mi(s, d)[j] == k,
    decreases s.len()
{
    if s.len() > 0 {
        let p = s.drop_last();
        lemma_mi(p, d);
        let r = mi(p, d);
        assert forall|k: int| 0 <= k < s.len() && lot_matching(#[trigger] s[k], d) implies exists|j: int| 0 <= j < mi(s, d).len() && mi(s, d)[j] == k by {
            if k < s.len() - 1 {
                assert(p[k] == s[k]);
                let j = choose|j: int| 0 <= j < r.len() && r[j] == k;
                assert(mi(s, d)[j] == k);
            } else {
                assert(mi(s, d)[r.len() as int] == k);
            }
        }
        assert forall|j: int| 0 <= j < mi(s, d).len() implies 0 <= #[trigger] mi(s, d)[j] < s.len() && lot_matching(s[mi(s, d)[j]], d) by {
            if j < r.len() { assert(p[r[j]] == s[r[j]]); }
        }
    }
}
pub proof fn lemma_mi_take_step(s: Seq<AcquisitionLot>, i: int, d: int)
    requires 0 <= i < s.len()
    ensures mi(s.take(i + 1), d) == (if lot_matching(s[i], d) { mi(s.take(i), d).push(i) } else { mi(s.take(i), d) })
{
    assert(s.take(i + 1).drop_last() =~= s.take(i));
    assert(s.take(i + 1).last() == s[i]);
}
/// (index, available) pairs as collected by the same-day matcher
pub open spec fn f_p1() -> spec_fn((usize, Decimal)) -> real { |p: (usize, Decimal)| p.1.v() }
pub open spec fn lod_idx(lod: Seq<(usize, Decimal)>) -> Seq<int> { lod.map(|j: int, p: (usize, Decimal)| p.0 as int) }


// one step of the pro-rata same-day consumption: everything the loop body needs, in terms of the old ledger only
pub proof fn lemma_sd_step(lod: Seq<(usize, Decimal)>, p: int, o: Seq<AcquisitionLot>, date: NaiveDate, amount: Decimal)
    requires
        0 <= p < lod.len(), wf_lots(o), lod_idx(lod) == mi(o, date.d()),
        forall|j: int| 0 <= j < lod.len() ==> 0 <= (#[trigger] lod[j]).0 < o.len() && lod[j].1.v() == lot_avail(o[lod[j].0 as int]),
        sd_t(o, date) > 0real, 0real < sd_m(o, date, amount) <= sd_t(o, date),
    ensures ({
        let rho = sd_rho(o, date, amount); let a = lod[p].1.v(); let rest = rsum(lod.skip(p + 1), f_p1());
        &&& rsum(lod.skip(p), f_p1()) == a + rest
        &&& rest >= 0real && a > 0real && 0real < rho <= 1real
        &&& rho * (a + rest) == rho * a + rho * rest
        &&& a * rho == rho * a && rho * rest >= 0real && rho * a <= a && rho * a > 0real
        &&& (p + 1 == lod.len() ==> rho * rest == 0real)
        &&& lot_matching(o[lod[p].0 as int], date.d())
    }),
{
    let rho = sd_rho(o, date, amount); let a = lod[p].1.v(); let d = date.d(); let t = sd_t(o, date); let m = sd_m(o, date, amount);
    lemma_mi(o, d);
    assert(lod_idx(lod)[p] == lod[p].0 as int);
    assert(lot_matching(o[lod[p].0 as int], d));
    rsum_skip_step(lod, p, f_p1());
    let rest = rsum(lod.skip(p + 1), f_p1());
    assert forall|q: int| 0 <= q < lod.skip(p + 1).len() implies f_p1()(#[trigger] lod.skip(p + 1)[q]) >= 0real by {
        let jj = p + 1 + q; assert(lod_idx(lod)[jj] == lod[jj].0 as int); assert(lot_matching(o[lod[jj].0 as int], d));
    }
    rsum_nonneg(lod.skip(p + 1), f_p1());
    assert(0real < rho <= 1real) by(nonlinear_arith) requires rho == m / t, 0real < m <= t;
    assert(rho * (a + rest) == rho * a + rho * rest) by(nonlinear_arith);
    assert(a * rho == rho * a) by(nonlinear_arith);
    assert(rho * rest >= 0real) by(nonlinear_arith) requires rho > 0real, rest >= 0real;
    assert(rho * a <= a) by(nonlinear_arith) requires rho <= 1real, a > 0real;
    assert(rho * a > 0real) by(nonlinear_arith) requires rho > 0real, a > 0real;
    if p + 1 == lod.len() { assert(lod.skip(p + 1) =~= Seq::<(usize, Decimal)>::empty()); assert(rho * 0real == 0real) by(nonlinear_arith); }
}

// ---------- transactions ----------
pub open spec fn is_sell(tx: GbpTransaction) -> bool { tx.operation is Sell }
pub open spec fn is_buy(tx: GbpTransaction) -> bool { tx.operation is Buy }
pub open spec fn sell_qty(tx: GbpTransaction) -> real { tx.operation->Sell_amount.v() }
pub open spec fn sell_price(tx: GbpTransaction) -> real { tx.operation->Sell_price.v() }
pub open spec fn sell_fees(tx: GbpTransaction) -> real { tx.operation->Sell_fees.v() }
pub open spec fn buy_qty(tx: GbpTransaction) -> real { tx.operation->Buy_amount.v() }
pub open spec fn sorted_by_date(txs: Seq<GbpTransaction>) -> bool {
    forall|i: int, j: int| 0 <= i <= j < txs.len() ==> txs[i].date.d() <= txs[j].date.d()
}
/// shares of `ticker` sold on `date` (all SELL lines of that day)
pub open spec fn f_sell_on(date: int, ticker: Seq<char>) -> spec_fn(GbpTransaction) -> real {
    |tx: GbpTransaction| if tx.date.d() == date && tx.ticker@ == ticker && tx.operation is Sell { tx.operation->Sell_amount.v() } else { 0real }
}
pub open spec fn f_buy_on(date: int, ticker: Seq<char>) -> spec_fn(GbpTransaction) -> real {
    |tx: GbpTransaction| if tx.date.d() == date && tx.ticker@ == ticker && tx.operation is Buy { tx.operation->Buy_amount.v() } else { 0real }
}
pub open spec fn day_sells(txs: Seq<GbpTransaction>, date: int, ticker: Seq<char>) -> real { rsum(txs, f_sell_on(date, ticker)) }
pub open spec fn day_buys(txs: Seq<GbpTransaction>, date: int, ticker: Seq<char>) -> real { rsum(txs, f_buy_on(date, ticker)) }
/// s106A window: acquisition on day x is matched with a disposal on day d iff 0 < x - d <= 30
pub open spec fn in_bnb_window(d: int, x: int) -> bool { 0 < x - d <= 30 }
/// effect of a SPLIT / UNSPLIT line on a share count (C10): SPLIT r multiplies, UNSPLIT r divides
pub open spec fn ratio_effect(tx: GbpTransaction, c: real) -> real {
    match tx.operation {
        Operation::Split { ratio } => c * ratio.v(),
        Operation::Unsplit { ratio } => if ratio.v() != 0real { c / ratio.v() } else { c },
        _ => c,
    }
}
pub open spec fn splits_nonzero(txs: Seq<GbpTransaction>) -> bool {
    forall|i: int| 0 <= i < txs.len() ==> ((#[trigger] txs[i]).operation is Split ==> txs[i].operation->Split_ratio.v() != 0real)
}
pub open spec fn fc_get(fc: Map<usize, Decimal>, i: usize) -> real { if fc.contains_key(i) { fc[i].v() } else { 0real } }

// ---------- legs ----------
/// C04.pro_rata / C04.leg_gain: figures of one leg of q shares out of a sale of big_q
pub open spec fn leg_figures(m: MatchResult, tx: GbpTransaction, q: real, big_q: real, price: real, fees: real) -> bool {
    &&& m.disposal_date == tx.date
    &&& m.disposal_ticker@ == tx.ticker@
    &&& m.match_detail.quantity.v() == q
    &&& m.gross_proceeds.v() == q * price
    &&& m.proceeds.v() == q * price - fees * (q / big_q)
    &&& m.match_detail.gain_or_loss.v() == m.proceeds.v() - m.match_detail.allowable_cost.v()
}
pub open spec fn f_leg_qty() -> spec_fn(MatchResult) -> real { |m: MatchResult| m.match_detail.quantity.v() }
pub open spec fn f_leg_cost() -> spec_fn(MatchResult) -> real { |m: MatchResult| m.match_detail.allowable_cost.v() }
pub open spec fn rule_rank(r: MatchRule) -> int { match r { MatchRule::SameDay => 0, MatchRule::BedAndBreakfast => 1, MatchRule::Section104 => 2 } }
/// unit cost of a BUY line with its capital-return/accumulation offset: the same formula as lot_unit
pub open spec fn buy_unit(amount: real, price: real, fees: real, offset: real) -> real {
    if amount != 0real { (amount * price + fees + offset) / amount } else { 0real }
}


// ---------- 30-day rule ----------
pub open spec fn offset_at(s: Seq<Decimal>, k: int) -> real { if 0 <= k < s.len() { s[k].v() } else { 0real } }
/// C01.bnb_cost / C03.lot_unit: leg j of a look-ahead is costed at the matched purchase's own unit cost
/// (its quantity, price, fees and capital-return offset), for the quantity expressed in the purchase's units
pub open spec fn bnb_leg_cost_ok(m: MatchResult, qb: real, k: int, txs: Seq<GbpTransaction>, offsets: Seq<Decimal>, sell_idx: int) -> bool {
    &&& sell_idx < k < txs.len()
    &&& txs[k].operation is Buy
    &&& txs[k].ticker@ == txs[sell_idx].ticker@
    &&& m.match_detail.acquisition_date == Some(txs[k].date)
    &&& qb >= 0real
    &&& m.match_detail.allowable_cost.v() == qb * buy_unit(buy_qty(txs[k]), txs[k].operation->Buy_price.v(), txs[k].operation->Buy_fees.v(), offset_at(offsets, k))
}
pub open spec fn ratios_ok(txs: Seq<GbpTransaction>) -> bool {
    forall|i: int| 0 <= i < txs.len() ==> (((#[trigger] txs[i]).operation is Split ==> txs[i].operation->Split_ratio.v() > 0real)
        && (txs[i].operation is Unsplit ==> txs[i].operation->Unsplit_ratio.v() >= 0real))
}
/// SPLIT / UNSPLIT lines of the sold security dated ON the disposal day: Matcher::process applies a day's corporate actions
/// after that day's disposals, so they intervene between the disposal and every later acquisition, wherever they are listed
pub open spec fn day_factor(txs: Seq<GbpTransaction>, sell_idx: int, n: int, c0: real) -> real
    decreases n
{
    if n <= 0 || n > txs.len() || sell_idx < 0 || sell_idx >= txs.len() { c0 } else {
        let c = day_factor(txs, sell_idx, n - 1, c0);
        let tx = txs[n - 1];
        if tx.ticker@ == txs[sell_idx].ticker@ && tx.date.d() == txs[sell_idx].date.d() { ratio_effect(tx, c) } else { c }
    }
}
/// composition, in line order and on top of the disposal day's own corporate actions, of the SPLIT and UNSPLIT lines of the
/// SAME security that lie strictly between lines `sell_idx` and `hi`, are dated inside the 30-day window after the sale and
/// before day `cut`
pub open spec fn win_fold(txs: Seq<GbpTransaction>, sell_idx: int, hi: int, cut: int) -> real
    decreases hi
{
    if hi <= sell_idx + 1 || hi > txs.len() || sell_idx < 0 { day_factor(txs, sell_idx, txs.len() as int, 1real) } else {
        let c = win_fold(txs, sell_idx, hi - 1, cut);
        let tx = txs[hi - 1];
        if tx.ticker@ == txs[sell_idx].ticker@ && in_bnb_window(txs[sell_idx].date.d(), tx.date.d()) && tx.date.d() < cut { ratio_effect(tx, c) } else { c }
    }
}
/// C10 / C01.split_rescale: the factor that converts a share count at the sale into the units of the acquisition at line `k`:
/// a SPLIT/UNSPLIT takes effect at the end of its day (as in Matcher::process: the day's purchases and sales come first), so
/// only those dated BEFORE the acquisition's day count, wherever they are listed within their own day
pub open spec fn split_factor(txs: Seq<GbpTransaction>, sell_idx: int, k: int) -> real {
    if 0 <= k < txs.len() { win_fold(txs, sell_idx, k, txs[k].date.d()) } else { day_factor(txs, sell_idx, txs.len() as int, 1real) }
}
/// two cut days that separate the window lines before `hi` in the same way give the same factor
pub proof fn lemma_win_fold_cut(txs: Seq<GbpTransaction>, sell_idx: int, hi: int, c1: int, c2: int)
    requires forall|j: int| sell_idx < j < hi && j < txs.len() && txs[j].ticker@ == txs[sell_idx].ticker@ && in_bnb_window(txs[sell_idx].date.d(), (#[trigger] txs[j]).date.d())
        ==> (txs[j].date.d() < c1 <==> txs[j].date.d() < c2)
    ensures win_fold(txs, sell_idx, hi, c1) == win_fold(txs, sell_idx, hi, c2)
    decreases hi
{
    if hi <= sell_idx + 1 || hi > txs.len() || sell_idx < 0 {} else { lemma_win_fold_cut(txs, sell_idx, hi - 1, c1, c2); }
}
pub open spec fn leg_acq_d(m: MatchResult) -> int { m.match_detail.acquisition_date->Some_0.d() }
/// 30-day legs come out earliest acquisition first (hidden from callers: the two-index quantifier is costly and no caller unfolds it)
#[verifier::opaque]
pub open spec fn legs_earliest_first(s: Seq<MatchResult>) -> bool {
    forall|j1: int, j2: int| 0 <= j1 < j2 < s.len() ==> leg_acq_d(#[trigger] s[j1]) <= leg_acq_d(#[trigger] s[j2])
}
/// C01.window + C04: a 30-day leg of `sell`
pub open spec fn bnb_leg_ok(m: MatchResult, sell: GbpTransaction) -> bool {
    &&& m.match_detail.rule == MatchRule::BedAndBreakfast
    &&& m.match_detail.acquisition_date is Some
    &&& in_bnb_window(sell.date.d(), leg_acq_d(m))
    &&& m.match_detail.quantity.v() >= 0real
    &&& leg_figures(m, sell, m.match_detail.quantity.v(), sell_qty(sell), sell_price(sell), sell_fees(sell))
}
/// claims never exceed the purchase they are made against (C02.day_cap, per acquisition)
pub open spec fn fc_capped(fc: Map<usize, Decimal>, txs: Seq<GbpTransaction>) -> bool {
    forall|i: usize| #![trigger fc_get(fc, i)] (i as int) < txs.len() && txs[i as int].operation is Buy ==> 0real <= fc_get(fc, i) <= buy_qty(txs[i as int])
}
/// what a 30-day look-ahead from `sell_idx` may change in the claim ledger (C01.claim_ledger, C09.frame, C12.lookahead)
pub open spec fn fc_step(fc0: Map<usize, Decimal>, fc1: Map<usize, Decimal>, txs: Seq<GbpTransaction>, sell_idx: int) -> bool {
    &&& forall|i: usize| #![trigger fc_get(fc1, i)] fc_get(fc1, i) >= fc_get(fc0, i)
    &&& forall|i: usize| #![trigger fc_get(fc1, i)] fc_get(fc1, i) != fc_get(fc0, i) ==> sell_idx < i < txs.len()
          && txs[i as int].ticker@ == txs[sell_idx].ticker@ && txs[i as int].operation is Buy
          && in_bnb_window(txs[sell_idx].date.d(), txs[i as int].date.d())
}
pub open spec fn sdr_step(s0: Map<(int, Seq<char>), Decimal>, s1: Map<(int, Seq<char>), Decimal>, ticker: Seq<char>) -> bool {
    &&& forall|k: (int, Seq<char>)| s0.contains_key(k) ==> #[trigger] s1.contains_key(k)
    &&& forall|k: (int, Seq<char>)| k.1 != ticker && #[trigger] s1.contains_key(k) ==> s0.contains_key(k) && s1[k] == s0[k]
}


/// legs of one disposal appear Same Day first, then 30-day, then Section 104 (C01.cascade_order)
pub open spec fn legs_ranked(legs: Seq<MatchResult>) -> bool {
    forall|i: int, j: int| 0 <= i < j < legs.len() ==> rule_rank((#[trigger] legs[i]).match_detail.rule) <= rule_rank((#[trigger] legs[j]).match_detail.rule)
}
pub open spec fn legs_of(legs: Seq<MatchResult>, tx: GbpTransaction) -> bool {
    forall|i: int| 0 <= i < legs.len() ==> (#[trigger] legs[i]).disposal_date == tx.date && legs[i].disposal_ticker@ == tx.ticker@
}
pub open spec fn held_for_sale(ledgers: Map<Seq<char>, matcher::AcquisitionLedger>, pools: Map<Seq<char>, Section104Holding>, tx: GbpTransaction) -> real {
    (if ledgers.contains_key(tx.ticker@) { avail_on(ledgers[tx.ticker@]@, tx.date.d()) } else { 0real })
    + (if pools.contains_key(tx.ticker@) { pools[tx.ticker@].quantity.v() } else { 0real })
}


// ---------- input validity: what the DSL grammar guarantees (decimal = digits[.digits]: never negative, zero allowed) ----------
pub open spec fn tx_valid(tx: GbpTransaction) -> bool {
    match tx.operation {
        Operation::Buy { amount, price, fees } => amount.v() >= 0real && price.v() >= 0real && fees.v() >= 0real,
        Operation::Sell { amount, price, fees } => amount.v() >= 0real && price.v() >= 0real && fees.v() >= 0real,
        _ => true,
    }
}
pub open spec fn txs_valid(txs: Seq<GbpTransaction>) -> bool { forall|i: int| 0 <= i < txs.len() ==> tx_valid(#[trigger] txs[i]) }
pub open spec fn ledgers_wf(m: Map<Seq<char>, matcher::AcquisitionLedger>) -> bool { forall|k: Seq<char>| #[trigger] m.contains_key(k) ==> wf_lots(m[k]@) }
pub open spec fn ledgers_idx_lt(m: Map<Seq<char>, matcher::AcquisitionLedger>, n: int) -> bool {
    forall|k: Seq<char>, j: int| #![trigger m[k]@[j]] m.contains_key(k) && 0 <= j < m[k]@.len() ==> (m[k]@[j].transaction_idx as int) < n
}
/// strict positivity of every split ratio (what the check added by the F3 fix establishes)
pub open spec fn ratios_pos(txs: Seq<GbpTransaction>) -> bool {
    forall|i: int| 0 <= i < txs.len() ==> (((#[trigger] txs[i]).operation is Split ==> txs[i].operation->Split_ratio.v() > 0real)
        && (txs[i].operation is Unsplit ==> txs[i].operation->Unsplit_ratio.v() > 0real))
}


// ---------- L2: what the day loop of Matcher::process maintains ----------
/// C03.offsets_carried / C01.lot: every lot is the BUY line it was created from (same date, quantity, price, fees)
/// and carries that line's capital-return/accumulation offset
pub open spec fn lot_is_tx(l: AcquisitionLot, t: Seq<char>, txs: Seq<GbpTransaction>, offsets: Seq<Decimal>) -> bool {
    let k = l.transaction_idx as int;
    &&& k < txs.len() && txs[k].operation is Buy && txs[k].ticker@ == t
    &&& l.date == txs[k].date && l.original_amount == txs[k].operation->Buy_amount
    &&& l.price == txs[k].operation->Buy_price && l.expenses == txs[k].operation->Buy_fees
    &&& l.cost_offset.v() == offset_at(offsets, k)
}
pub open spec fn inv_lots(m: Map<Seq<char>, matcher::AcquisitionLedger>, txs: Seq<GbpTransaction>, offsets: Seq<Decimal>) -> bool {
    forall|t: Seq<char>, j: int| #![trigger m[t]@[j]] m.contains_key(t) && 0 <= j < m[t]@.len() ==> lot_is_tx(m[t]@[j], t, txs, offsets)
}
/// C01.day_order / C02.pooling: shares bought before day d are all allocated (matched, reserved or pooled): only the
/// current day's purchases can be matched Same Day
pub open spec fn inv_done_before(m: Map<Seq<char>, matcher::AcquisitionLedger>, d: int) -> bool {
    forall|t: Seq<char>, j: int| #![trigger m[t]@[j]] m.contains_key(t) && 0 <= j < m[t]@.len() ==> m[t]@[j].date.d() <= d && (m[t]@[j].date.d() < d ==> lot_avail(m[t]@[j]) == 0real)
}
/// nothing bought today has been pooled yet (pooling happens after the day's sales)
pub open spec fn today_unpooled(s: Seq<AcquisitionLot>, d: int) -> bool {
    forall|j: int| 0 <= j < s.len() ==> ((#[trigger] s[j]).date.d() == d ==> s[j].in_pool.v() == 0real)
}
/// every BUY line of `ticker` dated d among txs[lo..hi) has its lot in the ledger (purchases are added before the day's sales)
pub open spec fn buys_added(s: Seq<AcquisitionLot>, txs: Seq<GbpTransaction>, lo: int, hi: int, ticker: Seq<char>) -> bool {
    forall|k: int| lo <= k < hi && (#[trigger] txs[k]).operation is Buy && txs[k].ticker@ == ticker ==> exists|j: int| 0 <= j < s.len() && #[trigger] s[j].transaction_idx == k
}


pub open spec fn lots_state(m: Map<Seq<char>, matcher::AcquisitionLedger>, cur: int) -> bool {
    forall|t: Seq<char>, j: int| #![trigger m[t]@[j]] m.contains_key(t) && 0 <= j < m[t]@.len() ==> m[t]@[j].date.d() <= cur && (m[t]@[j].date.d() < cur ==> lot_avail(m[t]@[j]) == 0real)
}
pub open spec fn lots_today_unpooled(m: Map<Seq<char>, matcher::AcquisitionLedger>, cur: int) -> bool {
    forall|t: Seq<char>| #[trigger] m.contains_key(t) ==> today_unpooled(m[t]@, cur)
}
pub open spec fn all_allocated(m: Map<Seq<char>, matcher::AcquisitionLedger>) -> bool {
    forall|t: Seq<char>, j: int| #![trigger m[t]@[j]] m.contains_key(t) && 0 <= j < m[t]@.len() ==> lot_avail(m[t]@[j]) == 0real
}
pub open spec fn lots_before(m: Map<Seq<char>, matcher::AcquisitionLedger>, d: int) -> bool {
    forall|t: Seq<char>, j: int| #![trigger m[t]@[j]] m.contains_key(t) && 0 <= j < m[t]@.len() ==> m[t]@[j].date.d() < d
}
pub open spec fn has_lot_idx(s: Seq<AcquisitionLot>, k: int) -> bool { exists|j: int| 0 <= j < s.len() && #[trigger] s[j].transaction_idx == k }
pub open spec fn buys_added_all(m: Map<Seq<char>, matcher::AcquisitionLedger>, txs: Seq<GbpTransaction>, lo: int, hi: int) -> bool {
    forall|k: int| lo <= k < hi && (#[trigger] txs[k]).operation is Buy ==> m.contains_key(txs[k].ticker@) && has_lot_idx(m[txs[k].ticker@]@, k)
}
pub open spec fn day_range(txs: Seq<GbpTransaction>, i: int, day_end: int, cur: int) -> bool {
    0 <= i < day_end <= txs.len() && forall|k: int| 0 <= k < txs.len() ==> ((#[trigger] txs[k]).date.d() == cur <==> i <= k < day_end)
}
/// every BUY of the sale's security on the sale's day already has its lot (C01.day_order)
pub open spec fn todays_buys_in_ledger(m: Map<Seq<char>, matcher::AcquisitionLedger>, txs: Seq<GbpTransaction>, tx: GbpTransaction) -> bool {
    forall|k: int| 0 <= k < txs.len() && (#[trigger] txs[k]).date.d() == tx.date.d() && txs[k].operation is Buy && txs[k].ticker@ == tx.ticker@
        ==> m.contains_key(tx.ticker@) && has_lot_idx(m[tx.ticker@]@, k)
}
/// pooled: for every BUY among txs[lo..hi) nothing of that security bought on day cur is still unallocated
pub open spec fn pooled_upto(m: Map<Seq<char>, matcher::AcquisitionLedger>, txs: Seq<GbpTransaction>, lo: int, hi: int, cur: int) -> bool {
    forall|k: int, j: int| #![trigger txs[k], m[txs[k].ticker@]@[j]] lo <= k < hi && txs[k].operation is Buy && m.contains_key(txs[k].ticker@) && 0 <= j < m[txs[k].ticker@]@.len()
        && m[txs[k].ticker@]@[j].date.d() == cur ==> lot_avail(m[txs[k].ticker@]@[j]) == 0real
}


// ---------- C03.total: the cost ledger (INV_COST) ----------
pub open spec fn f_leg_cost_t(t: Seq<char>) -> spec_fn(MatchResult) -> real { |m: MatchResult| if m.disposal_ticker@ == t { m.match_detail.allowable_cost.v() } else { 0real } }
pub open spec fn legs_cost(ms: Seq<MatchResult>, t: Seq<char>) -> real { rsum(ms, f_leg_cost_t(t)) }
pub open spec fn pool_cost(pools: Map<Seq<char>, Section104Holding>, t: Seq<char>) -> real { if pools.contains_key(t) { pools[t].total_cost.v() } else { 0real } }
/// cost of the shares of a lot that are not yet matched, reserved or pooled
pub open spec fn f_unalloc() -> spec_fn(AcquisitionLot) -> real { |l: AcquisitionLot| lot_avail(l) * lot_unit(l) }
pub open spec fn ledger_unalloc(m: Map<Seq<char>, matcher::AcquisitionLedger>, t: Seq<char>) -> real { if m.contains_key(t) { rsum(m[t]@, f_unalloc()) } else { 0real } }
/// the whole cost of a lot: quantity x its unit cost (= quantity x price + fees + offset for a non-zero quantity)
pub open spec fn f_full() -> spec_fn(AcquisitionLot) -> real { |l: AcquisitionLot| l.original_amount.v() * lot_unit(l) }
pub open spec fn ledger_cost(m: Map<Seq<char>, matcher::AcquisitionLedger>, t: Seq<char>) -> real { if m.contains_key(t) { rsum(m[t]@, f_full()) } else { 0real } }
pub open spec fn tx_buy_unit(txs: Seq<GbpTransaction>, offsets: Seq<Decimal>, k: int) -> real {
    buy_unit(buy_qty(txs[k]), txs[k].operation->Buy_price.v(), txs[k].operation->Buy_fees.v(), offset_at(offsets, k))
}
/// cost already given to 30-day legs against purchases that have not been reached yet
pub open spec fn f_claim(fc: Map<usize, Decimal>, txs: Seq<GbpTransaction>, offsets: Seq<Decimal>, t: Seq<char>) -> spec_fn(int) -> real {
    |k: int| if 0 <= k < txs.len() && txs[k].operation is Buy && txs[k].ticker@ == t { fc_get(fc, k as usize) * tx_buy_unit(txs, offsets, k) } else { 0real }
}
pub open spec fn claims_value(fc: Map<usize, Decimal>, txs: Seq<GbpTransaction>, offsets: Seq<Decimal>, t: Seq<char>) -> real { isum(txs.len() as int, f_claim(fc, txs, offsets, t)) }
/// legs + pool + unallocated - pending claims: equals the cost of all lots of the security at every point of the day loop
pub open spec fn phi(ms: Seq<MatchResult>, pools: Map<Seq<char>, Section104Holding>, ledgers: Map<Seq<char>, matcher::AcquisitionLedger>,
                     fc: Map<usize, Decimal>, txs: Seq<GbpTransaction>, offsets: Seq<Decimal>, t: Seq<char>) -> real {
    legs_cost(ms, t) + pool_cost(pools, t) + ledger_unalloc(ledgers, t) - claims_value(fc, txs, offsets, t)
}


/// a Same Day match takes exactly its cost out of the unallocated cost of the ledger (proportional consumption, C03.sameday_prop)
pub proof fn lemma_sameday_unalloc(l0: Seq<AcquisitionLot>, l1: Seq<AcquisitionLot>, d: int, q: real, a: real)
    requires wf_lots(l0), l1.len() == l0.len(), a == avail_on(l0, d), a > 0real, 0real < q <= a,
        forall|k: int| 0 <= k < l0.len() ==> lot_same_but_consumed(#[trigger] l1[k], l0[k])
            && l1[k].consumed.v() == l0[k].consumed.v() + (if lot_matching(l0[k], d) { lot_avail(l0[k]) * (q / a) } else { 0real }),
    ensures rsum(l1, f_unalloc()) == rsum(l0, f_unalloc()) - q * (rsum(l0, f_pos_avail_cost_on(d)) / a)
{
    let r = q / a;
    let dl = |l: AcquisitionLot| (-r) * f_pos_avail_cost_on(d)(l);
    assert forall|k: int| 0 <= k < l0.len() implies f_unalloc()(l1[k]) == f_unalloc()(#[trigger] l0[k]) + dl(l0[k]) by {
        let x = l0[k]; let y = l1[k];
        assert(lot_same_but_consumed(y, x));
        assert(lot_unit(y) == lot_unit(x));
        let av = lot_avail(x); let u = lot_unit(x);
        if lot_matching(x, d) {
            assert(lot_avail(y) == av - av * r);
            assert((av - av * r) * u == av * u + (-r) * (av * u)) by(nonlinear_arith);
        } else {
            assert(lot_avail(y) == av);
            assert(f_pos_avail_cost_on(d)(x) == 0real);
            assert((-r) * 0real == 0real) by(nonlinear_arith);
        }
    }
    rsum_ext_add(l0, l1, f_unalloc(), f_unalloc(), dl);
    rsum_scale(l0, f_pos_avail_cost_on(d), dl, -r);
    let c = rsum(l0, f_pos_avail_cost_on(d));
    assert((-(q / a)) * c == -(q * (c / a))) by(nonlinear_arith) requires a > 0real;
}
/// pooling the day's remainder moves exactly its cost from "unallocated" to the pool
pub proof fn lemma_pool_unalloc(l0: Seq<AcquisitionLot>, l1: Seq<AcquisitionLot>, d: int)
    requires wf_lots(l0), l1.len() == l0.len(),
        forall|k: int| 0 <= k < l0.len() ==> lot_same_but_in_pool(#[trigger] l1[k], l0[k])
            && l1[k].in_pool.v() == l0[k].in_pool.v() + (if l0[k].date.d() == d { lot_avail(l0[k]) } else { 0real }),
    ensures rsum(l1, f_unalloc()) == rsum(l0, f_unalloc()) - rsum(l0, f_pos_avail_cost_on(d))
{
    let dl = |l: AcquisitionLot| -f_pos_avail_cost_on(d)(l);
    assert forall|k: int| 0 <= k < l0.len() implies f_unalloc()(l1[k]) == f_unalloc()(#[trigger] l0[k]) + dl(l0[k]) by {
        let x = l0[k]; let y = l1[k];
        assert(wf_lot(x)); assert(lot_same_but_in_pool(y, x)); assert(lot_unit(y) == lot_unit(x));
        let av = lot_avail(x); let u = lot_unit(x);
        if x.date.d() == d { assert(lot_avail(y) == 0real); assert(0real * u == 0real) by(nonlinear_arith); if av == 0real { assert(0real * u == 0real) by(nonlinear_arith); } }
        else { assert(lot_avail(y) == av); }
    }
    rsum_ext_add(l0, l1, f_unalloc(), f_unalloc(), dl);
    rsum_scale(l0, f_pos_avail_cost_on(d), dl, -1real);
}


pub proof fn lemma_legs_cost_of(legs: Seq<MatchResult>, tk: Seq<char>, t: Seq<char>)
    requires forall|i: int| 0 <= i < legs.len() ==> (#[trigger] legs[i]).disposal_ticker@ == tk
    ensures rsum(legs, f_leg_cost_t(t)) == (if t == tk { rsum(legs, f_leg_cost()) } else { 0real })
{
    if t == tk { rsum_ext(legs, legs, f_leg_cost_t(t), f_leg_cost()); } else { rsum_zero(legs, f_leg_cost_t(t)); }
}
pub proof fn lemma_full_same(l0: Seq<AcquisitionLot>, l1: Seq<AcquisitionLot>)
    requires l1.len() == l0.len(), forall|k: int| 0 <= k < l0.len() ==> (lot_same_but_consumed(#[trigger] l1[k], l0[k]) || lot_same_but_in_pool(l1[k], l0[k]))
    ensures rsum(l1, f_full()) == rsum(l0, f_full())
{
    assert forall|k: int| 0 <= k < l1.len() implies f_full()(#[trigger] l1[k]) == f_full()(l0[k]) by { assert(lot_unit(l1[k]) == lot_unit(l0[k])); }
    rsum_ext(l1, l0, f_full(), f_full());
}


/// C03.total for one sale: Same Day legs come out of the ledger's unallocated cost, 30-day legs become pending claims,
/// the Section 104 leg comes out of the pool: legs + pool + unallocated - claims is unchanged for every security
pub proof fn lemma_sell_phi(m0: Seq<MatchResult>, sd: Seq<MatchResult>, bb: Seq<MatchResult>, xs: Seq<MatchResult>,
        pools0: Map<Seq<char>, Section104Holding>, pools1: Map<Seq<char>, Section104Holding>,
        led0: Map<Seq<char>, matcher::AcquisitionLedger>, led1: Map<Seq<char>, matcher::AcquisitionLedger>,
        fc0: Map<usize, Decimal>, fc1: Map<usize, Decimal>, txs: Seq<GbpTransaction>, offs: Seq<Decimal>, tk: Seq<char>, t: Seq<char>)
    requires
        forall|i: int| 0 <= i < sd.len() ==> (#[trigger] sd[i]).disposal_ticker@ == tk,
        forall|i: int| 0 <= i < bb.len() ==> (#[trigger] bb[i]).disposal_ticker@ == tk,
        forall|i: int| 0 <= i < xs.len() ==> (#[trigger] xs[i]).disposal_ticker@ == tk,
        sd.len() <= 1, xs.len() <= 1,
        led1.dom() == led0.dom(),
        forall|k: Seq<char>| k != tk && led0.contains_key(k) ==> #[trigger] led1[k] == led0[k],
        sd.len() == 0 ==> led1 == led0,
        sd.len() == 1 ==> led0.contains_key(tk) && led1[tk]@.len() == led0[tk]@.len()
            && rsum(led1[tk]@, f_unalloc()) == rsum(led0[tk]@, f_unalloc()) - sd[0].match_detail.allowable_cost.v()
            && forall|j: int| 0 <= j < led0[tk]@.len() ==> lot_same_but_consumed(#[trigger] led1[tk]@[j], led0[tk]@[j]),
        claims_value(fc1, txs, offs, tk) == claims_value(fc0, txs, offs, tk) + rsum(bb, f_leg_cost()),
        t != tk ==> claims_value(fc1, txs, offs, t) == claims_value(fc0, txs, offs, t),
        pools1.dom() == pools0.dom(),
        forall|k: Seq<char>| k != tk && pools0.contains_key(k) ==> #[trigger] pools1[k] == pools0[k],
        xs.len() == 0 ==> pools1 == pools0,
        xs.len() == 1 ==> pools0.contains_key(tk) && pools1[tk].total_cost.v() == pools0[tk].total_cost.v() - xs[0].match_detail.allowable_cost.v(),
    ensures
        phi(m0 + sd + bb + xs, pools1, led1, fc1, txs, offs, t) == phi(m0, pools0, led0, fc0, txs, offs, t),
        ledger_cost(led1, t) == ledger_cost(led0, t),
{
    {
        rsum_concat(m0 + sd + bb, xs, f_leg_cost_t(t));
        rsum_concat(m0 + sd, bb, f_leg_cost_t(t));
        rsum_concat(m0, sd, f_leg_cost_t(t));
        lemma_legs_cost_of(sd, tk, t); lemma_legs_cost_of(bb, tk, t); lemma_legs_cost_of(xs, tk, t);
        if sd.len() == 1 { assert(sd =~= seq![sd[0]]); rsum_one(sd[0], f_leg_cost()); } else { assert(sd =~= Seq::<MatchResult>::empty()); }
        if xs.len() == 1 { assert(xs =~= seq![xs[0]]); rsum_one(xs[0], f_leg_cost()); } else { assert(xs =~= Seq::<MatchResult>::empty()); }
        if t == tk && sd.len() == 1 { lemma_full_same(led0[tk]@, led1[tk]@); }
        if t != tk && led0.contains_key(t) { assert(led1[t] == led0[t]); }
        if t != tk && pools0.contains_key(t) { assert(pools1[t] == pools0[t]); }
        assert(led1.contains_key(t) == led0.contains_key(t));
        assert(pools1.contains_key(t) == pools0.contains_key(t));
    }
}


/// claims exist only against BUY lines
pub open spec fn fc_on_buys(fc: Map<usize, Decimal>, txs: Seq<GbpTransaction>) -> bool {
    forall|i: usize| #![trigger fc_get(fc, i)] fc_get(fc, i) != 0real ==> (i as int) < txs.len() && txs[i as int].operation is Buy
}
/// no claim is pending against a line before position n
pub open spec fn fc_zero_before(fc: Map<usize, Decimal>, n: int) -> bool {
    forall|i: usize| #![trigger fc_get(fc, i)] (i as int) < n ==> fc_get(fc, i) == 0real
}
/// adding the lot of BUY line k (reserved = the claims already made against it) keeps unallocated - claims - lot cost unchanged
pub proof fn lemma_add_lot_phi(led0: Map<Seq<char>, matcher::AcquisitionLedger>, led1: Map<Seq<char>, matcher::AcquisitionLedger>,
        fc0: Map<usize, Decimal>, fc1: Map<usize, Decimal>, txs: Seq<GbpTransaction>, offs: Seq<Decimal>, k: int, t: Seq<char>)
    requires
        0 <= k < txs.len() <= usize::MAX, txs[k].operation is Buy,
        ({ let tk = txs[k].ticker@; let l0 = if led0.contains_key(tk) { led0[tk]@ } else { Seq::<AcquisitionLot>::empty() };
           led1.dom() == led0.dom().insert(tk) && (forall|q: Seq<char>| q != tk && led0.contains_key(q) ==> #[trigger] led1[q] == led0[q])
           && led1[tk]@.len() == l0.len() + 1 && led1[tk]@.drop_last() == l0
           && lot_is_tx(led1[tk]@.last(), tk, txs, offs) && led1[tk]@.last().transaction_idx == k
           && led1[tk]@.last().consumed.v() == 0real && led1[tk]@.last().in_pool.v() == 0real
           && led1[tk]@.last().reserved.v() == fc_get(fc0, k as usize) }),
        forall|j: usize| #![trigger fc_get(fc1, j)] fc_get(fc1, j) == (if j as int == k { 0real } else { fc_get(fc0, j) }),
    ensures
        ledger_unalloc(led1, t) - claims_value(fc1, txs, offs, t) - ledger_cost(led1, t) == ledger_unalloc(led0, t) - claims_value(fc0, txs, offs, t) - ledger_cost(led0, t),
{
    let tk = txs[k].ticker@;
    let l0 = if led0.contains_key(tk) { led0[tk]@ } else { Seq::<AcquisitionLot>::empty() };
    let l1 = led1[tk]@; let lot = l1.last();
    if t == tk {
        assert(l1 =~= l0.push(lot));
        rsum_push(l0, lot, f_unalloc()); rsum_push(l0, lot, f_full());
        let a = lot.original_amount.v(); let r = lot.reserved.v(); let u = lot_unit(lot);
        assert(u == tx_buy_unit(txs, offs, k));
        assert((a - 0real - r - 0real) * u - a * u + r * u == 0real) by(nonlinear_arith);
        assert forall|j: int| 0 <= j < txs.len() && j != k implies #[trigger] f_claim(fc1, txs, offs, t)(j) == f_claim(fc0, txs, offs, t)(j) by { assert(fc_get(fc1, j as usize) == fc_get(fc0, j as usize)); }
        assert(fc_get(fc1, k as usize) == 0real);
        assert(0real * u == 0real) by(nonlinear_arith);
        isum_update(txs.len() as int, f_claim(fc1, txs, offs, t), f_claim(fc0, txs, offs, t), k, r * u);
        if !led0.contains_key(tk) { rsum_empty::<AcquisitionLot>(f_unalloc()); rsum_empty::<AcquisitionLot>(f_full()); }
    } else {
        assert forall|j: int| 0 <= j < txs.len() implies #[trigger] f_claim(fc1, txs, offs, t)(j) == f_claim(fc0, txs, offs, t)(j) by {
            if j != k { assert(fc_get(fc1, j as usize) == fc_get(fc0, j as usize)); }
        }
        isum_ext(txs.len() as int, f_claim(fc1, txs, offs, t), f_claim(fc0, txs, offs, t));
        assert(led1.contains_key(t) == led0.contains_key(t));
        if led0.contains_key(t) { assert(led1[t] == led0[t]); }
    }
}
/// when nothing is unallocated and no claim is pending: legs + pool = cost of all lots (C03.total)
pub proof fn lemma_phi_end(ms: Seq<MatchResult>, pools: Map<Seq<char>, Section104Holding>, led: Map<Seq<char>, matcher::AcquisitionLedger>,
        fc: Map<usize, Decimal>, txs: Seq<GbpTransaction>, offs: Seq<Decimal>, t: Seq<char>)
    requires all_allocated(led), fc_zero_before(fc, txs.len() as int), txs.len() <= usize::MAX
    ensures phi(ms, pools, led, fc, txs, offs, t) == legs_cost(ms, t) + pool_cost(pools, t)
{
    if led.contains_key(t) {
        assert forall|j: int| 0 <= j < led[t]@.len() implies f_unalloc()(#[trigger] led[t]@[j]) == 0real by {
            let u = lot_unit(led[t]@[j]); assert(lot_avail(led[t]@[j]) == 0real); assert(0real * u == 0real) by(nonlinear_arith);
        }
        rsum_zero(led[t]@, f_unalloc());
    }
    assert forall|j: int| 0 <= j < txs.len() implies #[trigger] f_claim(fc, txs, offs, t)(j) == 0real by {
        assert(fc_get(fc, j as usize) == 0real); let u = tx_buy_unit(txs, offs, j); assert(0real * u == 0real) by(nonlinear_arith);
    }
    isum_zero(txs.len() as int, f_claim(fc, txs, offs, t));
}


/// shares of the sold security that earlier disposals have already matched against purchases still to come, in the
/// units current at line sell_idx (they are still in the pool but no longer the seller's to sell): C05
pub open spec fn f_pending(fc: Map<usize, Decimal>, txs: Seq<GbpTransaction>, sell_idx: int) -> spec_fn(int) -> real {
    |k: int| if sell_idx < k < txs.len() && txs[k].operation is Buy && txs[k].ticker@ == txs[sell_idx].ticker@ { fc_get(fc, k as usize) / split_factor(txs, sell_idx, k) } else { 0real }
}
pub open spec fn pending_claims(fc: Map<usize, Decimal>, txs: Seq<GbpTransaction>, sell_idx: int) -> real { isum(txs.len() as int, f_pending(fc, txs, sell_idx)) }


// ---------- C04.merge / C06: what same-day merging must conserve, per (date, security, kind) ----------
pub open spec fn on_key(tx: GbpTransaction, d: int, t: Seq<char>) -> bool { tx.date.d() == d && tx.ticker@ == t }
pub open spec fn f_sell_val_on(d: int, t: Seq<char>) -> spec_fn(GbpTransaction) -> real { |tx: GbpTransaction| if on_key(tx, d, t) && tx.operation is Sell { tx.operation->Sell_amount.v() * tx.operation->Sell_price.v() } else { 0real } }
pub open spec fn f_sell_fee_on(d: int, t: Seq<char>) -> spec_fn(GbpTransaction) -> real { |tx: GbpTransaction| if on_key(tx, d, t) && tx.operation is Sell { tx.operation->Sell_fees.v() } else { 0real } }
pub open spec fn f_buy_val_on(d: int, t: Seq<char>) -> spec_fn(GbpTransaction) -> real { |tx: GbpTransaction| if on_key(tx, d, t) && tx.operation is Buy { tx.operation->Buy_amount.v() * tx.operation->Buy_price.v() } else { 0real } }
pub open spec fn f_buy_fee_on(d: int, t: Seq<char>) -> spec_fn(GbpTransaction) -> real { |tx: GbpTransaction| if on_key(tx, d, t) && tx.operation is Buy { tx.operation->Buy_fees.v() } else { 0real } }
/// the six per-day totals of a list: shares, consideration and fees of the day's sales and of the day's purchases of one security
pub open spec fn day_totals(s: Seq<GbpTransaction>, d: int, t: Seq<char>) -> (real, real, real, real, real, real) {
    (rsum(s, f_sell_on(d, t)), rsum(s, f_sell_val_on(d, t)), rsum(s, f_sell_fee_on(d, t)), rsum(s, f_buy_on(d, t)), rsum(s, f_buy_val_on(d, t)), rsum(s, f_buy_fee_on(d, t)))
}
pub open spec fn tx_totals(tx: GbpTransaction, d: int, t: Seq<char>) -> (real, real, real, real, real, real) {
    (f_sell_on(d, t)(tx), f_sell_val_on(d, t)(tx), f_sell_fee_on(d, t)(tx), f_buy_on(d, t)(tx), f_buy_val_on(d, t)(tx), f_buy_fee_on(d, t)(tx))
}
pub open spec fn add6(a: (real, real, real, real, real, real), b: (real, real, real, real, real, real)) -> (real, real, real, real, real, real) {
    (a.0 + b.0, a.1 + b.1, a.2 + b.2, a.3 + b.3, a.4 + b.4, a.5 + b.5)
}
/// merged so far + the line being built + the lines still to come have the same per-day totals as the sorted input
pub open spec fn merge_conserves(merged: Seq<GbpTransaction>, cur: GbpTransaction, rest: Seq<GbpTransaction>, sorted: Seq<GbpTransaction>) -> bool {
    forall|d: int, t: Seq<char>| #![trigger day_totals(sorted, d, t)] add6(add6(day_totals(merged, d, t), tx_totals(cur, d, t)), day_totals(rest, d, t)) == day_totals(sorted, d, t)
}
pub proof fn lemma_totals_push(s: Seq<GbpTransaction>, x: GbpTransaction, d: int, t: Seq<char>)
    ensures day_totals(s.push(x), d, t) == add6(day_totals(s, d, t), tx_totals(x, d, t))
{
    rsum_push(s, x, f_sell_on(d, t)); rsum_push(s, x, f_sell_val_on(d, t)); rsum_push(s, x, f_sell_fee_on(d, t));
    rsum_push(s, x, f_buy_on(d, t)); rsum_push(s, x, f_buy_val_on(d, t)); rsum_push(s, x, f_buy_fee_on(d, t));
}
pub proof fn lemma_totals_head(s: Seq<GbpTransaction>, d: int, t: Seq<char>)
    requires s.len() > 0
    ensures day_totals(s, d, t) == add6(tx_totals(s[0], d, t), day_totals(s.skip(1), d, t))
{
    assert(s.skip(0) =~= s);
    rsum_skip_step(s, 0, f_sell_on(d, t)); rsum_skip_step(s, 0, f_sell_val_on(d, t)); rsum_skip_step(s, 0, f_sell_fee_on(d, t));
    rsum_skip_step(s, 0, f_buy_on(d, t)); rsum_skip_step(s, 0, f_buy_val_on(d, t)); rsum_skip_step(s, 0, f_buy_fee_on(d, t));
}
/// merging two same-day same-security lines of one kind at the weighted-average price conserves shares, consideration and fees
pub proof fn lemma_merge_totals(a: GbpTransaction, b: GbpTransaction, m: GbpTransaction, d: int, t: Seq<char>)
    requires tx_valid(a), tx_valid(b), a.date.d() == b.date.d(), a.ticker@ == b.ticker@, m.date == a.date, m.ticker@ == a.ticker@,
        (a.operation is Buy && b.operation is Buy && m.operation is Buy
            && m.operation->Buy_amount.v() == a.operation->Buy_amount.v() + b.operation->Buy_amount.v()
            && m.operation->Buy_fees.v() == a.operation->Buy_fees.v() + b.operation->Buy_fees.v()
            && m.operation->Buy_price.v() == (if m.operation->Buy_amount.v() != 0real { (a.operation->Buy_amount.v() * a.operation->Buy_price.v() + b.operation->Buy_amount.v() * b.operation->Buy_price.v()) / m.operation->Buy_amount.v() } else { a.operation->Buy_price.v() }))
        || (a.operation is Sell && b.operation is Sell && m.operation is Sell
            && m.operation->Sell_amount.v() == a.operation->Sell_amount.v() + b.operation->Sell_amount.v()
            && m.operation->Sell_fees.v() == a.operation->Sell_fees.v() + b.operation->Sell_fees.v()
            && m.operation->Sell_price.v() == (if m.operation->Sell_amount.v() != 0real { (a.operation->Sell_amount.v() * a.operation->Sell_price.v() + b.operation->Sell_amount.v() * b.operation->Sell_price.v()) / m.operation->Sell_amount.v() } else { a.operation->Sell_price.v() })),
    ensures tx_totals(m, d, t) == add6(tx_totals(a, d, t), tx_totals(b, d, t))
{
    if a.operation is Buy {
        let (a1, p1, a2, p2) = (a.operation->Buy_amount.v(), a.operation->Buy_price.v(), b.operation->Buy_amount.v(), b.operation->Buy_price.v());
        let n = a1 * p1 + a2 * p2; let q = a1 + a2;
        if q != 0real { assert(q * (n / q) == n) by(nonlinear_arith) requires q != 0real; }
        else { assert(a1 == 0real && a2 == 0real); assert(0real * p1 == 0real && 0real * p2 == 0real) by(nonlinear_arith); }
    } else {
        let (a1, p1, a2, p2) = (a.operation->Sell_amount.v(), a.operation->Sell_price.v(), b.operation->Sell_amount.v(), b.operation->Sell_price.v());
        let n = a1 * p1 + a2 * p2; let q = a1 + a2;
        if q != 0real { assert(q * (n / q) == n) by(nonlinear_arith) requires q != 0real; }
        else { assert(a1 == 0real && a2 == 0real); assert(0real * p1 == 0real && 0real * p2 == 0real) by(nonlinear_arith); }
    }
}

// ---------- proceeds ----------
/// C04.pro_rata: the share of the day's sale attributed to a leg of q out of Q shares
pub open spec fn pro_rata_gross(q: real, price: real) -> real { q * price }
pub open spec fn pro_rata_fees(q: real, big_q: real, fees: real) -> real { fees * (q / big_q) }


// ---------- INV_LEGS: nothing skipped — per (disposal date, security) the legs emitted so far add up to the SELL lines processed so far
pub open spec fn f_leg_qty_on(d: int, t: Seq<char>) -> spec_fn(MatchResult) -> real {
    |m: MatchResult| if m.disposal_date.d() == d && m.disposal_ticker@ == t { m.match_detail.quantity.v() } else { 0real }
}
pub open spec fn legs_qty_on(ms: Seq<MatchResult>, d: int, t: Seq<char>) -> real { rsum(ms, f_leg_qty_on(d, t)) }
pub open spec fn f_sold_on(txs: Seq<GbpTransaction>, d: int, t: Seq<char>) -> spec_fn(int) -> real {
    |k: int| if 0 <= k < txs.len() && txs[k].operation is Sell && txs[k].date.d() == d && txs[k].ticker@ == t { sell_qty(txs[k]) } else { 0real }
}
/// shares of security t sold on day d by the first n lines
pub open spec fn sold_upto(txs: Seq<GbpTransaction>, n: int, d: int, t: Seq<char>) -> real { isum(n, f_sold_on(txs, d, t)) }
pub open spec fn inv_legs(ms: Seq<MatchResult>, txs: Seq<GbpTransaction>, n: int) -> bool {
    forall|d: int, t: Seq<char>| #![trigger legs_qty_on(ms, d, t)] legs_qty_on(ms, d, t) == sold_upto(txs, n, d, t)
}
/// one SELL line handled: its new legs (all carrying its date and security, adding up to its quantity) extend the list
pub proof fn lemma_legs_sell(m0: Seq<MatchResult>, m1: Seq<MatchResult>, txs: Seq<GbpTransaction>, k: int)
    requires
        0 <= k < txs.len(), txs[k].operation is Sell, inv_legs(m0, txs, k),
        m1.len() >= m0.len(), m1.take(m0.len() as int) == m0,
        legs_of(m1.skip(m0.len() as int), txs[k]), rsum(m1.skip(m0.len() as int), f_leg_qty()) == sell_qty(txs[k]),
    ensures inv_legs(m1, txs, k + 1),
{
    let nw = m1.skip(m0.len() as int);
    assert(m1 =~= m0 + nw);
    assert forall|d: int, t: Seq<char>| #![trigger legs_qty_on(m1, d, t)] legs_qty_on(m1, d, t) == sold_upto(txs, k + 1, d, t) by {
        rsum_concat(m0, nw, f_leg_qty_on(d, t));
        assert(legs_qty_on(m0, d, t) == sold_upto(txs, k, d, t));
        if txs[k].date.d() == d && txs[k].ticker@ == t {
            assert forall|i: int| 0 <= i < nw.len() implies f_leg_qty_on(d, t)(#[trigger] nw[i]) == f_leg_qty()(nw[i]) by {}
            rsum_ext(nw, nw, f_leg_qty_on(d, t), f_leg_qty());
        } else {
            assert forall|i: int| 0 <= i < nw.len() implies f_leg_qty_on(d, t)(#[trigger] nw[i]) == 0real by {}
            rsum_zero(nw, f_leg_qty_on(d, t));
        }
    }
}
/// a line that is not a SELL (or emits nothing) leaves the balance unchanged
pub proof fn lemma_legs_skip(ms: Seq<MatchResult>, txs: Seq<GbpTransaction>, k: int)
    requires 0 <= k < txs.len(), !(txs[k].operation is Sell), inv_legs(ms, txs, k),
    ensures inv_legs(ms, txs, k + 1),
{
    assert forall|d: int, t: Seq<char>| #![trigger legs_qty_on(ms, d, t)] legs_qty_on(ms, d, t) == sold_upto(txs, k + 1, d, t) by {
        assert(legs_qty_on(ms, d, t) == sold_upto(txs, k, d, t));
    }
}


/// per-day totals do not depend on line order
pub proof fn lemma_totals_perm(a: Seq<GbpTransaction>, b: Seq<GbpTransaction>, d: int, t: Seq<char>)
    requires a.to_multiset() == b.to_multiset()
    ensures day_totals(a, d, t) == day_totals(b, d, t)
{
    rsum_multiset(a, b, f_sell_on(d, t)); rsum_multiset(a, b, f_sell_val_on(d, t)); rsum_multiset(a, b, f_sell_fee_on(d, t));
    rsum_multiset(a, b, f_buy_on(d, t)); rsum_multiset(a, b, f_buy_val_on(d, t)); rsum_multiset(a, b, f_buy_fee_on(d, t));
}
pub proof fn lemma_sold_rsum(txs: Seq<GbpTransaction>, n: int, d: int, t: Seq<char>)
    requires 0 <= n <= txs.len()
    ensures sold_upto(txs, n, d, t) == rsum(txs.take(n), f_sell_on(d, t))
    decreases n
{
    if n == 0 { assert(txs.take(0) =~= Seq::<GbpTransaction>::empty()); }
    else { lemma_sold_rsum(txs, n - 1, d, t); rsum_take_step(txs, n - 1, f_sell_on(d, t)); }
}
/// end-to-end form of INV_LEGS: in terms of the caller's list `input`, of which `txs` is the sorted-and-merged form
pub proof fn lemma_legs_end(ms: Seq<MatchResult>, txs: Seq<GbpTransaction>, input: Seq<GbpTransaction>)
    requires inv_legs(ms, txs, txs.len() as int), forall|d: int, t: Seq<char>| #![trigger day_totals(txs, d, t)] day_totals(txs, d, t) == day_totals(input, d, t)
    ensures forall|d: int, t: Seq<char>| #![trigger legs_qty_on(ms, d, t)] legs_qty_on(ms, d, t) == day_sells(input, d, t)
{
    assert forall|d: int, t: Seq<char>| #![trigger legs_qty_on(ms, d, t)] legs_qty_on(ms, d, t) == day_sells(input, d, t) by {
        lemma_sold_rsum(txs, txs.len() as int, d, t);
        assert(txs.take(txs.len() as int) =~= txs);
        assert(day_totals(txs, d, t) == day_totals(input, d, t));
    }
}


// ---------- corporate actions of a day: every SPLIT/UNSPLIT line rescales the pool of its own security, in line order
pub open spec fn pool_q(p: Map<Seq<char>, Section104Holding>, t: Seq<char>) -> real { if p.contains_key(t) { p[t].quantity.v() } else { 0real } }
pub open spec fn ca_fold(txs: Seq<GbpTransaction>, a: int, b: int, t: Seq<char>, q: real) -> real
    decreases b - a
{
    if b <= a { q } else { let q1 = ca_fold(txs, a, b - 1, t, q); if txs[b - 1].ticker@ == t { ratio_effect(txs[b - 1], q1) } else { q1 } }
}
pub proof fn lemma_ratio_effect_zero(tx: GbpTransaction)
    ensures ratio_effect(tx, 0real) == 0real
{
    match tx.operation {
        Operation::Split { ratio } => { let r = ratio.v(); assert(0real * r == 0real) by(nonlinear_arith); }
        Operation::Unsplit { ratio } => { let r = ratio.v(); if r != 0real { assert(0real / r == 0real) by(nonlinear_arith) requires r != 0real; } }
        _ => {}
    }
}


// ---------- C05.sound: the holding of a security as a function of the line list alone ----------
pub open spec fn hq(m: Map<Seq<char>, Decimal>, t: Seq<char>) -> real { if m.contains_key(t) { m[t].v() } else { 0real } }
pub open spec fn is_day_start(txs: Seq<GbpTransaction>, j: int) -> bool { j <= 0 || j >= txs.len() || txs[j - 1].date.d() != txs[j].date.d() }
/// (shares, factor of the current day's splits) after the first n lines of a date-ordered list: purchases add, sales subtract, and a
/// SPLIT/UNSPLIT takes effect at the end of its day (the factor is folded into the share count when the next day begins)
pub open spec fn net_state(txs: Seq<GbpTransaction>, n: int, t: Seq<char>) -> (real, real)
    decreases n
{
    if n <= 0 || n > txs.len() { (0real, 1real) } else {
        let s0 = net_state(txs, n - 1, t); let j = n - 1; let tx = txs[j];
        let q = if is_day_start(txs, j) { s0.0 * s0.1 } else { s0.0 };
        let f = if is_day_start(txs, j) { 1real } else { s0.1 };
        if tx.ticker@ != t { (q, f) } else {
            match tx.operation {
                Operation::Buy { amount, .. } => (q + amount.v(), f),
                Operation::Sell { amount, .. } => (q - amount.v(), f),
                _ => (q, ratio_effect(tx, f)),
            }
        }
    }
}
/// shares of t held after the first n lines, in the units current once the splits seen so far have taken effect
pub open spec fn net_total(txs: Seq<GbpTransaction>, n: int, t: Seq<char>) -> real { net_state(txs, n, t).0 * net_state(txs, n, t).1 }
/// C05: at the close of every day among the first n lines, the shares of every security acquired to date cover those sold to date
pub open spec fn covered_upto(txs: Seq<GbpTransaction>, n: int) -> bool {
    forall|e: int, t: Seq<char>| 0 < e <= n && e <= txs.len() && is_day_start(txs, e) ==> #[trigger] net_total(txs, e, t) >= 0real
}
pub open spec fn f_buy_t(txs: Seq<GbpTransaction>, t: Seq<char>) -> spec_fn(int) -> real {
    |k: int| if 0 <= k < txs.len() && txs[k].operation is Buy && txs[k].ticker@ == t { buy_qty(txs[k]) } else { 0real }
}
pub open spec fn f_sell_t(txs: Seq<GbpTransaction>, t: Seq<char>) -> spec_fn(int) -> real {
    |k: int| if 0 <= k < txs.len() && txs[k].operation is Sell && txs[k].ticker@ == t { sell_qty(txs[k]) } else { 0real }
}
pub open spec fn bought_in(txs: Seq<GbpTransaction>, a: int, b: int, t: Seq<char>) -> real { isum(b, f_buy_t(txs, t)) - isum(a, f_buy_t(txs, t)) }
pub open spec fn sold_in(txs: Seq<GbpTransaction>, a: int, b: int, t: Seq<char>) -> real { isum(b, f_sell_t(txs, t)) - isum(a, f_sell_t(txs, t)) }
/// holding of t at the close of the day's trading (lines i..e), before the day's splits take effect
pub open spec fn hbase(txs: Seq<GbpTransaction>, i: int, e: int, t: Seq<char>) -> real { net_total(txs, i, t) + bought_in(txs, i, e, t) - sold_in(txs, i, e, t) }
/// composition of the SPLIT/UNSPLIT lines of t among lines a..b, applied to 1
pub open spec fn dfac(txs: Seq<GbpTransaction>, a: int, b: int, t: Seq<char>) -> real
    decreases b - a
{
    if b <= a || b > txs.len() || a < 0 { 1real } else { let c = dfac(txs, a, b - 1, t); if txs[b - 1].ticker@ == t { ratio_effect(txs[b - 1], c) } else { c } }
}
pub proof fn lemma_dfac_pos(txs: Seq<GbpTransaction>, a: int, b: int, t: Seq<char>)
    requires ratios_pos(txs)
    ensures dfac(txs, a, b, t) > 0real
    decreases b - a
{
    if b <= a || b > txs.len() || a < 0 {} else {
        lemma_dfac_pos(txs, a, b - 1, t);
        let c = dfac(txs, a, b - 1, t); let tx = txs[b - 1];
        match tx.operation {
            Operation::Split { ratio } => { let r = ratio.v(); assert(c * r > 0real) by(nonlinear_arith) requires c > 0real, r > 0real; }
            Operation::Unsplit { ratio } => { let r = ratio.v(); assert(c / r > 0real) by(nonlinear_arith) requires c > 0real, r > 0real; }
            _ => {}
        }
    }
}
/// within one day (lines i..n, i the day's first line) the state is: opening holding + bought - sold, and the day's split factor
pub proof fn lemma_net_day(txs: Seq<GbpTransaction>, i: int, n: int, t: Seq<char>)
    requires 0 <= i < n <= txs.len(), is_day_start(txs, i), forall|j: int| i < j < n ==> !is_day_start(txs, j)
    ensures net_state(txs, n, t) == (net_total(txs, i, t) + bought_in(txs, i, n, t) - sold_in(txs, i, n, t), dfac(txs, i, n, t))
    decreases n - i
{
    if n == i + 1 {
        assert(dfac(txs, i, i, t) == 1real);
    } else {
        lemma_net_day(txs, i, n - 1, t);
        assert(!is_day_start(txs, n - 1));
    }
}
/// rescaling the holding by one more line of the day
pub proof fn lemma_hold_step(base: real, d: real, tx: GbpTransaction)
    requires d > 0real, (tx.operation is Split ==> tx.operation->Split_ratio.v() > 0real), (tx.operation is Unsplit ==> tx.operation->Unsplit_ratio.v() > 0real)
    ensures ratio_effect(tx, base * d) == base * ratio_effect(tx, d), (base * d == 0real ==> base == 0real && base * ratio_effect(tx, d) == 0real)
{
    match tx.operation {
        Operation::Split { ratio } => { let r = ratio.v(); assert((base * d) * r == base * (d * r)) by(nonlinear_arith); }
        Operation::Unsplit { ratio } => { let r = ratio.v(); assert((base * d) / r == base * (d / r)) by(nonlinear_arith) requires r > 0real; }
        _ => {}
    }
    if base * d == 0real { assert(base == 0real) by(nonlinear_arith) requires base * d == 0real, d > 0real; let x = ratio_effect(tx, d); assert(base * x == 0real) by(nonlinear_arith) requires base == 0real; }
}


// ---------- INV_POS: conversion factors as one generic fold, and the claims pending under the 30-day rule in current units ----------
/// composition, in line order, of the SPLIT/UNSPLIT lines of t among lines lo..hi that are dated before day `cut`, applied to c0
pub open spec fn rf(txs: Seq<GbpTransaction>, lo: int, hi: int, t: Seq<char>, cut: int, c0: real) -> real
    decreases hi - lo
{
    if hi <= lo || hi > txs.len() || lo < 0 { c0 } else {
        let c = rf(txs, lo, hi - 1, t, cut, c0); let tx = txs[hi - 1];
        if tx.ticker@ == t && tx.date.d() < cut { ratio_effect(tx, c) } else { c }
    }
}
pub proof fn lemma_rf_split(txs: Seq<GbpTransaction>, lo: int, mid: int, hi: int, t: Seq<char>, cut: int, c0: real)
    requires 0 <= lo <= mid <= hi <= txs.len()
    ensures rf(txs, lo, hi, t, cut, c0) == rf(txs, mid, hi, t, cut, rf(txs, lo, mid, t, cut, c0))
    decreases hi - mid
{
    if hi > mid { lemma_rf_split(txs, lo, mid, hi - 1, t, cut, c0); }
}
pub proof fn lemma_ratio_effect_linear(tx: GbpTransaction, c: real, x: real)
    ensures ratio_effect(tx, c * x) == c * ratio_effect(tx, x)
{
    match tx.operation {
        Operation::Split { ratio } => { let r = ratio.v(); assert((c * x) * r == c * (x * r)) by(nonlinear_arith); }
        Operation::Unsplit { ratio } => { let r = ratio.v(); if r != 0real { assert((c * x) / r == c * (x / r)) by(nonlinear_arith) requires r != 0real; } }
        _ => {}
    }
}
pub proof fn lemma_rf_linear(txs: Seq<GbpTransaction>, lo: int, hi: int, t: Seq<char>, cut: int, c0: real)
    ensures rf(txs, lo, hi, t, cut, c0) == c0 * rf(txs, lo, hi, t, cut, 1real)
    decreases hi - lo
{
    if hi <= lo || hi > txs.len() || lo < 0 { assert(c0 * 1real == c0) by(nonlinear_arith); } else {
        lemma_rf_linear(txs, lo, hi - 1, t, cut, c0);
        let tx = txs[hi - 1];
        if tx.ticker@ == t && tx.date.d() < cut { lemma_ratio_effect_linear(tx, c0, rf(txs, lo, hi - 1, t, cut, 1real)); }
    }
}
pub proof fn lemma_rf_pos(txs: Seq<GbpTransaction>, lo: int, hi: int, t: Seq<char>, cut: int, c0: real)
    requires ratios_pos(txs), c0 > 0real
    ensures rf(txs, lo, hi, t, cut, c0) > 0real
    decreases hi - lo
{
    if hi <= lo || hi > txs.len() || lo < 0 {} else {
        lemma_rf_pos(txs, lo, hi - 1, t, cut, c0);
        let c = rf(txs, lo, hi - 1, t, cut, c0); let tx = txs[hi - 1];
        match tx.operation {
            Operation::Split { ratio } => { let r = ratio.v(); assert(c * r > 0real) by(nonlinear_arith) requires c > 0real, r > 0real; }
            Operation::Unsplit { ratio } => { let r = ratio.v(); assert(c / r > 0real) by(nonlinear_arith) requires c > 0real, r > 0real; }
            _ => {}
        }
    }
}
/// two cut days that separate the lines of t among lo..hi in the same way give the same fold
pub proof fn lemma_rf_cut(txs: Seq<GbpTransaction>, lo: int, hi: int, t: Seq<char>, c1: int, c2: int, c0: real)
    requires forall|j: int| lo <= j < hi && 0 <= j < txs.len() && (#[trigger] txs[j]).ticker@ == t ==> (txs[j].date.d() < c1 <==> txs[j].date.d() < c2)
    ensures rf(txs, lo, hi, t, c1, c0) == rf(txs, lo, hi, t, c2, c0)
    decreases hi - lo
{
    if hi <= lo || hi > txs.len() || lo < 0 {} else { lemma_rf_cut(txs, lo, hi - 1, t, c1, c2, c0); }
}
/// no line of t dated before the cut among lo..hi: nothing happens
pub proof fn lemma_rf_skip(txs: Seq<GbpTransaction>, lo: int, hi: int, t: Seq<char>, cut: int, c0: real)
    requires forall|j: int| lo <= j < hi && 0 <= j < txs.len() && (#[trigger] txs[j]).ticker@ == t ==> txs[j].date.d() >= cut
    ensures rf(txs, lo, hi, t, cut, c0) == c0
    decreases hi - lo
{
    if hi <= lo || hi > txs.len() || lo < 0 {} else { lemma_rf_skip(txs, lo, hi - 1, t, cut, c0); }
}
/// the disposal day's own corporate actions, as a fold over the day's lines i..e
pub proof fn lemma_day_factor_rf(txs: Seq<GbpTransaction>, s: int, i: int, e: int, n: int, c0: real)
    requires 0 <= i <= s < e <= txs.len(), 0 <= n <= txs.len(), day_range(txs, i, e, txs[s].date.d())
    ensures day_factor(txs, s, n, c0) == rf(txs, i, if n <= i { i } else if n <= e { n } else { e }, txs[s].ticker@, txs[s].date.d() + 1, c0)
    decreases n
{
    if n > 0 {
        lemma_day_factor_rf(txs, s, i, e, n - 1, c0);
        let tx = txs[n - 1];
        if n - 1 < i || n - 1 >= e { assert(tx.date.d() != txs[s].date.d()); }
    }
}
/// the look-ahead factor for a later line k, as a fold over the lines from the end of the disposal day
pub proof fn lemma_win_fold_rf(txs: Seq<GbpTransaction>, s: int, i: int, e: int, hi: int, cut: int)
    requires 0 <= i <= s < e <= hi <= txs.len(), day_range(txs, i, e, txs[s].date.d()), sorted_by_date(txs), cut <= txs[s].date.d() + 31
    ensures win_fold(txs, s, hi, cut) == rf(txs, e, hi, txs[s].ticker@, cut, day_factor(txs, s, txs.len() as int, 1real))
    decreases hi
{
    if hi <= s + 1 { assert(hi == e); }
    else {
        let tx = txs[hi - 1];
        if hi > e {
            lemma_win_fold_rf(txs, s, i, e, hi - 1, cut);
            assert(tx.date.d() != txs[s].date.d()); assert(txs[s].date.d() <= tx.date.d());
        } else {
            // hi == e > s + 1: the lines s+1..e are of the disposal day, outside the window
            lemma_win_fold_same_day(txs, s, i, e, hi, cut);
        }
    }
}
pub proof fn lemma_win_fold_same_day(txs: Seq<GbpTransaction>, s: int, i: int, e: int, hi: int, cut: int)
    requires 0 <= i <= s < e <= txs.len(), s < hi <= e, day_range(txs, i, e, txs[s].date.d())
    ensures win_fold(txs, s, hi, cut) == day_factor(txs, s, txs.len() as int, 1real)
    decreases hi
{
    if hi <= s + 1 {} else { lemma_win_fold_same_day(txs, s, i, e, hi - 1, cut); assert(txs[hi - 1].date.d() == txs[s].date.d()); }
}
/// units of the acquisition at line k per unit at line c (c the start of a day or a position inside its corporate-action pass)
pub open spec fn gfac(txs: Seq<GbpTransaction>, c: int, k: int, t: Seq<char>) -> real {
    if 0 <= k < txs.len() { rf(txs, c, k, t, txs[k].date.d(), 1real) } else { 1real }
}
/// KEY: the factor the look-ahead of the sale at line s applies to a purchase at line k inside its window is the composition of the
/// splits of the sale's security dated from the disposal day up to, not including, the purchase's day
pub proof fn lemma_split_factor_gfac(txs: Seq<GbpTransaction>, s: int, i: int, e: int, k: int)
    requires 0 <= i <= s < e <= k < txs.len(), day_range(txs, i, e, txs[s].date.d()), sorted_by_date(txs), txs[k].date.d() <= txs[s].date.d() + 30
    ensures split_factor(txs, s, k) == gfac(txs, i, k, txs[s].ticker@)
{
    let t = txs[s].ticker@; let ds = txs[s].date.d(); let dk = txs[k].date.d();
    assert(dk != ds); assert(ds <= dk);
    lemma_win_fold_rf(txs, s, i, e, k, dk);
    lemma_day_factor_rf(txs, s, i, e, txs.len() as int, 1real);
    assert forall|j: int| i <= j < e && 0 <= j < txs.len() && (#[trigger] txs[j]).ticker@ == t implies (txs[j].date.d() < ds + 1 <==> txs[j].date.d() < dk) by { assert(txs[j].date.d() == ds); }
    lemma_rf_cut(txs, i, e, t, ds + 1, dk, 1real);
    lemma_rf_split(txs, i, e, k, t, dk, 1real);
}


pub proof fn lemma_day_factor_pos(txs: Seq<GbpTransaction>, s: int, n: int, c0: real)
    requires ratios_pos(txs), c0 > 0real
    ensures day_factor(txs, s, n, c0) > 0real
    decreases n
{
    if n <= 0 || n > txs.len() || s < 0 || s >= txs.len() {} else {
        lemma_day_factor_pos(txs, s, n - 1, c0);
        let c = day_factor(txs, s, n - 1, c0); let tx = txs[n - 1];
        match tx.operation {
            Operation::Split { ratio } => { let r = ratio.v(); assert(c * r > 0real) by(nonlinear_arith) requires c > 0real, r > 0real; }
            Operation::Unsplit { ratio } => { let r = ratio.v(); assert(c / r > 0real) by(nonlinear_arith) requires c > 0real, r > 0real; }
            _ => {}
        }
    }
}
pub proof fn lemma_win_fold_pos(txs: Seq<GbpTransaction>, s: int, hi: int, cut: int)
    requires ratios_pos(txs)
    ensures win_fold(txs, s, hi, cut) > 0real
    decreases hi
{
    if hi <= s + 1 || hi > txs.len() || s < 0 { lemma_day_factor_pos(txs, s, txs.len() as int, 1real); } else {
        lemma_win_fold_pos(txs, s, hi - 1, cut);
        let c = win_fold(txs, s, hi - 1, cut); let tx = txs[hi - 1];
        match tx.operation {
            Operation::Split { ratio } => { let r = ratio.v(); assert(c * r > 0real) by(nonlinear_arith) requires c > 0real, r > 0real; }
            Operation::Unsplit { ratio } => { let r = ratio.v(); assert(c / r > 0real) by(nonlinear_arith) requires c > 0real, r > 0real; }
            _ => {}
        }
    }
}
/// claims pending under the 30-day rule against purchases of t still to come, converted into the units current at line c
pub open spec fn f_pend(fc: Map<usize, Decimal>, txs: Seq<GbpTransaction>, c: int, t: Seq<char>) -> spec_fn(int) -> real {
    |k: int| if 0 <= k < txs.len() && txs[k].operation is Buy && txs[k].ticker@ == t { fc_get(fc, k as usize) / gfac(txs, c, k, t) } else { 0real }
}
pub open spec fn pend(fc: Map<usize, Decimal>, txs: Seq<GbpTransaction>, c: int, t: Seq<char>) -> real { isum(txs.len() as int, f_pend(fc, txs, c, t)) }
/// every pending claim is on a line at or after n, dated no more than 30 days after day d
pub open spec fn fc_within(fc: Map<usize, Decimal>, txs: Seq<GbpTransaction>, n: int, d: int) -> bool {
    forall|k: usize| #![trigger fc_get(fc, k)] fc_get(fc, k) != 0real ==> n <= (k as int) < txs.len() && txs[k as int].date.d() <= d + 30
}
/// P1: seen from the sale at line s (day i..e), the pending claims on its security are what the look-ahead's own ledger says
pub proof fn lemma_pend_eq_pending(fc: Map<usize, Decimal>, txs: Seq<GbpTransaction>, s: int, i: int, e: int)
    requires 0 <= i <= s < e <= txs.len() <= usize::MAX, day_range(txs, i, e, txs[s].date.d()), sorted_by_date(txs), ratios_pos(txs), fc_within(fc, txs, e, txs[s].date.d())
    ensures pend(fc, txs, i, txs[s].ticker@) == pending_claims(fc, txs, s)
{
    let t = txs[s].ticker@;
    assert forall|k: int| 0 <= k < txs.len() implies #[trigger] f_pend(fc, txs, i, t)(k) == f_pending(fc, txs, s)(k) by {
        let a = fc_get(fc, k as usize);
        if txs[k].operation is Buy && txs[k].ticker@ == t {
            let g = gfac(txs, i, k, t); lemma_rf_pos(txs, i, k, t, txs[k].date.d(), 1real);
            if a == 0real {
                assert(0real / g == 0real) by(nonlinear_arith) requires g > 0real;
                if s < k { let f = split_factor(txs, s, k); lemma_win_fold_pos(txs, s, k, txs[k].date.d()); assert(0real / f == 0real) by(nonlinear_arith) requires f > 0real; }
            } else {
                assert(e <= k && txs[k].date.d() <= txs[s].date.d() + 30);
                lemma_split_factor_gfac(txs, s, i, e, k);
            }
        }
    }
    isum_ext(txs.len() as int, f_pend(fc, txs, i, t), f_pending(fc, txs, s));
}
/// P2: one line of the day's corporate-action pass rescales the pending claims of its own security, like the pool
pub proof fn lemma_pend_ca_step(fc: Map<usize, Decimal>, txs: Seq<GbpTransaction>, c: int, t: Seq<char>)
    requires 0 <= c < txs.len() <= usize::MAX, sorted_by_date(txs), ratios_pos(txs),
        forall|k: usize| #![trigger fc_get(fc, k)] fc_get(fc, k) != 0real ==> (k as int) < txs.len() && txs[k as int].date.d() > txs[c].date.d()
    ensures pend(fc, txs, c + 1, t) == (if txs[c].ticker@ == t { ratio_effect(txs[c], pend(fc, txs, c, t)) } else { pend(fc, txs, c, t) })
{
    let tx = txs[c]; let m = if tx.ticker@ == t { ratio_effect(tx, 1real) } else { 1real };
    assert(m > 0real) by {
        match tx.operation {
            Operation::Split { ratio } => { let r = ratio.v(); assert(1real * r > 0real) by(nonlinear_arith) requires r > 0real; }
            Operation::Unsplit { ratio } => { let r = ratio.v(); assert(1real / r > 0real) by(nonlinear_arith) requires r > 0real; }
            _ => {}
        }
    }
    assert forall|k: int| 0 <= k < txs.len() implies #[trigger] f_pend(fc, txs, c + 1, t)(k) == m * f_pend(fc, txs, c, t)(k) by {
        let a = fc_get(fc, k as usize);
        if txs[k].operation is Buy && txs[k].ticker@ == t {
            let cut = txs[k].date.d();
            let g0 = gfac(txs, c, k, t); let g1 = gfac(txs, c + 1, k, t);
            lemma_rf_pos(txs, c, k, t, cut, 1real); lemma_rf_pos(txs, c + 1, k, t, cut, 1real);
            if a == 0real {
                assert(0real / g0 == 0real) by(nonlinear_arith) requires g0 > 0real;
                assert(0real / g1 == 0real) by(nonlinear_arith) requires g1 > 0real;
                assert(m * 0real == 0real) by(nonlinear_arith);
            } else {
                assert(txs[k].date.d() > tx.date.d());
                assert(c < k) by { if k <= c { assert(txs[k].date.d() <= txs[c].date.d()); } }
                lemma_rf_split(txs, c, c + 1, k, t, cut, 1real);
                assert(rf(txs, c, c, t, cut, 1real) == 1real);
                let first = rf(txs, c, c + 1, t, cut, 1real);
                assert(first == m);
                lemma_rf_linear(txs, c + 1, k, t, cut, first);
                assert(g0 == m * g1);
                assert(a / g1 == m * (a / g0)) by(nonlinear_arith) requires g0 == m * g1, m > 0real, g1 > 0real;
            }
        } else {
            assert(m * 0real == 0real) by(nonlinear_arith);
        }
    }
    isum_scale(txs.len() as int, f_pend(fc, txs, c, t), f_pend(fc, txs, c + 1, t), m);
    let p = pend(fc, txs, c, t);
    if tx.ticker@ == t { lemma_ratio_effect_linear(tx, p, 1real); assert(p * 1real == p) by(nonlinear_arith); assert(m * p == p * m) by(nonlinear_arith); }
    else { assert(1real * p == p) by(nonlinear_arith); }
}
/// P3: a purchase reached by the day loop takes its claims out of the pending total, one for one (no split lies between the
/// start of its day and the purchase)
pub proof fn lemma_pend_remove(fc0: Map<usize, Decimal>, fc1: Map<usize, Decimal>, txs: Seq<GbpTransaction>, i: int, k: int, t: Seq<char>)
    requires 0 <= i <= k < txs.len() <= usize::MAX, txs[k].operation is Buy,
        forall|j: int| i <= j <= k ==> (#[trigger] txs[j]).date.d() == txs[k].date.d(),
        fc_get(fc1, k as usize) == 0real, forall|j: usize| #![trigger fc_get(fc1, j)] j != k as usize ==> fc_get(fc1, j) == fc_get(fc0, j)
    ensures pend(fc1, txs, i, t) == pend(fc0, txs, i, t) - (if txs[k].ticker@ == t { fc_get(fc0, k as usize) } else { 0real })
{
    let dl = if txs[k].ticker@ == t { -fc_get(fc0, k as usize) } else { 0real };
    assert(f_pend(fc1, txs, i, t)(k) == f_pend(fc0, txs, i, t)(k) + dl) by {
        if txs[k].ticker@ == t {
            lemma_rf_skip(txs, i, k, t, txs[k].date.d(), 1real);
            let a = fc_get(fc0, k as usize);
            assert(a / 1real == a) by(nonlinear_arith); assert(0real / 1real == 0real) by(nonlinear_arith);
        }
    }
    assert forall|j: int| 0 <= j < txs.len() && j != k implies #[trigger] f_pend(fc0, txs, i, t)(j) == f_pend(fc1, txs, i, t)(j) by {
        assert(fc_get(fc1, j as usize) == fc_get(fc0, j as usize));
    }
    isum_update(txs.len() as int, f_pend(fc0, txs, i, t), f_pend(fc1, txs, i, t), k, dl);
}
pub proof fn lemma_pend_zero(fc: Map<usize, Decimal>, txs: Seq<GbpTransaction>, c: int, t: Seq<char>)
    requires txs.len() <= usize::MAX, ratios_pos(txs), forall|k: usize| #![trigger fc_get(fc, k)] (k as int) < txs.len() ==> fc_get(fc, k) == 0real
    ensures pend(fc, txs, c, t) == 0real
{
    assert forall|k: int| 0 <= k < txs.len() implies #[trigger] f_pend(fc, txs, c, t)(k) == 0real by {
        if txs[k].operation is Buy && txs[k].ticker@ == t {
            let g = gfac(txs, c, k, t); lemma_rf_pos(txs, c, k, t, txs[k].date.d(), 1real);
            assert(fc_get(fc, k as usize) == 0real);
            assert(0real / g == 0real) by(nonlinear_arith) requires g > 0real;
        }
    }
    isum_zero(txs.len() as int, f_pend(fc, txs, c, t));
}


/// a Same Day match of q shares takes exactly q out of the day's available shares (proportional consumption)
pub proof fn lemma_sameday_avail(l0: Seq<AcquisitionLot>, l1: Seq<AcquisitionLot>, d: int, q: real, a: real)
    requires wf_lots(l0), l1.len() == l0.len(), a == avail_on(l0, d), a > 0real, 0real < q <= a,
        forall|k: int| 0 <= k < l0.len() ==> lot_same_but_consumed(#[trigger] l1[k], l0[k])
            && l1[k].consumed.v() == l0[k].consumed.v() + (if lot_matching(l0[k], d) { lot_avail(l0[k]) * (q / a) } else { 0real }),
    ensures avail_on(l1, d) == a - q
{
    let r = q / a;
    let dl = |l: AcquisitionLot| (-r) * f_pos_avail_on(d)(l);
    assert forall|k: int| 0 <= k < l0.len() implies f_avail_on(d)(l1[k]) == f_avail_on(d)(#[trigger] l0[k]) + dl(l0[k]) by {
        let x = l0[k]; let y = l1[k];
        assert(lot_same_but_consumed(y, x));
        let av = lot_avail(x);
        if lot_matching(x, d) {
            assert(lot_avail(y) == av - av * r);
            assert(av - av * r == av + (-r) * av) by(nonlinear_arith);
        } else {
            assert(lot_avail(y) == av);
            assert(f_pos_avail_on(d)(x) == 0real);
            assert((-r) * 0real == 0real) by(nonlinear_arith);
        }
    }
    rsum_ext_add(l0, l1, f_avail_on(d), f_avail_on(d), dl);
    rsum_scale(l0, f_pos_avail_on(d), dl, -r);
    lemma_pos_avail_eq(l0, d);
    assert((-(q / a)) * a == -q) by(nonlinear_arith) requires a > 0real;
}
/// pooling the day's remainder leaves nothing of the day available
pub proof fn lemma_pool_avail(l0: Seq<AcquisitionLot>, l1: Seq<AcquisitionLot>, d: int)
    requires l1.len() == l0.len(), forall|k: int| 0 <= k < l0.len() ==> ((#[trigger] l0[k]).date.d() == l1[k].date.d()) && (l0[k].date.d() == d ==> lot_avail(l1[k]) == 0real)
    ensures avail_on(l1, d) == 0real
{
    assert forall|k: int| 0 <= k < l1.len() implies f_avail_on(d)(#[trigger] l1[k]) == 0real by { assert(l0[k].date.d() == l1[k].date.d()); }
    rsum_zero(l1, f_avail_on(d));
}
/// shares of t available for matching on day d, over all ledgers
pub open spec fn lav(m: Map<Seq<char>, matcher::AcquisitionLedger>, t: Seq<char>, d: int) -> real { if m.contains_key(t) { avail_on(m[t]@, d) } else { 0real } }


// ---------- INV_POS steps in Matcher::process ----------
/// every pending claim is on a line of the list, dated no more than 30 days after day d
pub open spec fn fc_bound(fc: Map<usize, Decimal>, txs: Seq<GbpTransaction>, d: int) -> bool {
    forall|k: usize| #![trigger fc_get(fc, k)] fc_get(fc, k) != 0real ==> (k as int) < txs.len() && txs[k as int].date.d() <= d + 30
}
pub proof fn lemma_ratio_effect_add(tx: GbpTransaction, a: real, b: real)
    ensures ratio_effect(tx, a + b) == ratio_effect(tx, a) + ratio_effect(tx, b)
{
    match tx.operation {
        Operation::Split { ratio } => { let r = ratio.v(); assert((a + b) * r == a * r + b * r) by(nonlinear_arith); }
        Operation::Unsplit { ratio } => { let r = ratio.v(); if r != 0real { assert((a + b) / r == a / r + b / r) by(nonlinear_arith) requires r != 0real; } }
        _ => {}
    }
}
/// no lot of day d yet: nothing of day d is available
pub proof fn lemma_lav_none(m: Map<Seq<char>, matcher::AcquisitionLedger>, t: Seq<char>, d: int)
    requires lots_before(m, d)
    ensures lav(m, t, d) == 0real
{
    if m.contains_key(t) {
        assert forall|j: int| 0 <= j < m[t]@.len() implies f_avail_on(d)(#[trigger] m[t]@[j]) == 0real by {}
        rsum_zero(m[t]@, f_avail_on(d));
    }
}
/// everything allocated: nothing is available
pub proof fn lemma_lav_allocated(m: Map<Seq<char>, matcher::AcquisitionLedger>, t: Seq<char>, d: int)
    requires all_allocated(m)
    ensures lav(m, t, d) == 0real
{
    if m.contains_key(t) {
        assert forall|j: int| 0 <= j < m[t]@.len() implies f_avail_on(d)(#[trigger] m[t]@[j]) == 0real by {}
        rsum_zero(m[t]@, f_avail_on(d));
    }
}
/// adding the lot of BUY line k (reserved = the claims already made against it): available - pending grows by the quantity bought
pub proof fn lemma_add_lot_pos(led0: Map<Seq<char>, matcher::AcquisitionLedger>, led1: Map<Seq<char>, matcher::AcquisitionLedger>,
        fc0: Map<usize, Decimal>, fc1: Map<usize, Decimal>, txs: Seq<GbpTransaction>, offs: Seq<Decimal>, i: int, k: int, t: Seq<char>)
    requires
        0 <= i <= k < txs.len() <= usize::MAX, txs[k].operation is Buy,
        forall|j: int| i <= j <= k ==> (#[trigger] txs[j]).date.d() == txs[k].date.d(),
        ({ let tk = txs[k].ticker@; let l0 = if led0.contains_key(tk) { led0[tk]@ } else { Seq::<AcquisitionLot>::empty() };
           led1.dom() == led0.dom().insert(tk) && (forall|q: Seq<char>| q != tk && led0.contains_key(q) ==> #[trigger] led1[q] == led0[q])
           && led1[tk]@.len() == l0.len() + 1 && led1[tk]@.drop_last() == l0
           && lot_is_tx(led1[tk]@.last(), tk, txs, offs) && led1[tk]@.last().transaction_idx == k
           && led1[tk]@.last().consumed.v() == 0real && led1[tk]@.last().in_pool.v() == 0real
           && led1[tk]@.last().reserved.v() == fc_get(fc0, k as usize) }),
        forall|j: usize| #![trigger fc_get(fc1, j)] fc_get(fc1, j) == (if j as int == k { 0real } else { fc_get(fc0, j) }),
    ensures
        lav(led1, t, txs[k].date.d()) - pend(fc1, txs, i, t) == lav(led0, t, txs[k].date.d()) - pend(fc0, txs, i, t) + (if txs[k].ticker@ == t { buy_qty(txs[k]) } else { 0real }),
{
    let tk = txs[k].ticker@; let d = txs[k].date.d();
    let l0 = if led0.contains_key(tk) { led0[tk]@ } else { Seq::<AcquisitionLot>::empty() };
    let l1 = led1[tk]@; let lot = l1.last();
    lemma_pend_remove(fc0, fc1, txs, i, k, t);
    if t == tk {
        assert(l1 =~= l0.push(lot));
        rsum_push(l0, lot, f_avail_on(d));
        if !led0.contains_key(tk) { rsum_empty::<AcquisitionLot>(f_avail_on(d)); }
        assert(lot.date.d() == d);
    } else {
        if led0.contains_key(t) { assert(led1[t] == led0[t]); } else { assert(!led1.contains_key(t)); }
    }
}
/// claims on another security's purchases do not count for t
pub proof fn lemma_pend_frame(fc0: Map<usize, Decimal>, fc1: Map<usize, Decimal>, txs: Seq<GbpTransaction>, c: int, t: Seq<char>)
    requires txs.len() <= usize::MAX, forall|k: usize| #![trigger fc_get(fc1, k)] fc_get(fc1, k) != fc_get(fc0, k) ==> (k as int) < txs.len() && txs[k as int].ticker@ != t
    ensures pend(fc1, txs, c, t) == pend(fc0, txs, c, t)
{
    assert forall|k: int| 0 <= k < txs.len() implies #[trigger] f_pend(fc1, txs, c, t)(k) == f_pend(fc0, txs, c, t)(k) by {
        if txs[k].ticker@ == t { assert(fc_get(fc1, k as usize) == fc_get(fc0, k as usize)); }
    }
    isum_ext(txs.len() as int, f_pend(fc1, txs, c, t), f_pend(fc0, txs, c, t));
}


/// INV_POS: per security, pool + what is still available of the day's purchases == the position (acquisitions less disposals,
/// rescaled) + the shares already disposed of under the 30-day rule whose purchases are still to come (in current units)
pub open spec fn inv_pos(pools: Map<Seq<char>, Section104Holding>, ledgers: Map<Seq<char>, matcher::AcquisitionLedger>, held: Map<Seq<char>, Decimal>,
                         fc: Map<usize, Decimal>, txs: Seq<GbpTransaction>, c: int, cur: int) -> bool {
    forall|t: Seq<char>| #![trigger pool_q(pools, t)] pool_q(pools, t) + lav(ledgers, t, cur) == hq(held, t) + pend(fc, txs, c, t)
}


pub proof fn lemma_pend_nonneg(fc: Map<usize, Decimal>, txs: Seq<GbpTransaction>, c: int, t: Seq<char>)
    requires txs.len() <= usize::MAX, ratios_pos(txs), fc_capped(fc, txs)
    ensures pend(fc, txs, c, t) >= 0real
{
    assert forall|k: int| 0 <= k < txs.len() implies #[trigger] f_pend(fc, txs, c, t)(k) >= 0real by {
        if txs[k].operation is Buy && txs[k].ticker@ == t {
            let g = gfac(txs, c, k, t); lemma_rf_pos(txs, c, k, t, txs[k].date.d(), 1real);
            let a = fc_get(fc, k as usize); assert(a >= 0real);
            assert(a / g >= 0real) by(nonlinear_arith) requires a >= 0real, g > 0real;
        }
    }
    isum_nonneg(txs.len() as int, f_pend(fc, txs, c, t));
}
/// C05.complete: in a covered list, the holding at a SELL line k of day i..e (all the day's purchases counted, the day's earlier
/// sales and this one deducted) is not negative
pub proof fn lemma_covered_sale(txs: Seq<GbpTransaction>, i: int, e: int, k: int, t: Seq<char>)
    requires 0 <= i <= k < e <= txs.len(), txs_valid(txs), ratios_pos(txs), covered_upto(txs, txs.len() as int),
        is_day_start(txs, i), is_day_start(txs, e), forall|j: int| i < j < e ==> !is_day_start(txs, j)
    ensures net_total(txs, i, t) + bought_in(txs, i, e, t) - sold_in(txs, i, k + 1, t) >= 0real
{
    lemma_net_day(txs, i, e, t); lemma_dfac_pos(txs, i, e, t);
    let hb = hbase(txs, i, e, t); let d = dfac(txs, i, e, t);
    assert(net_total(txs, e, t) >= 0real);
    assert(hb >= 0real) by(nonlinear_arith) requires hb * d >= 0real, d > 0real;
    assert forall|j: int| k + 1 <= j < e implies #[trigger] f_sell_t(txs, t)(j) >= 0real by { assert(tx_valid(txs[j])); }
    isum_mono(k + 1, e, f_sell_t(txs, t));
}


/// pre-pass (C11): shares of lots dated before day d that can still be consumed
pub open spec fn f_pos_avail_before(d: int) -> spec_fn(AcquisitionLot) -> real { |l: AcquisitionLot| if l.date.d() < d && lot_avail(l) > 0real { lot_avail(l) } else { 0real } }
pub open spec fn rmin(a: real, b: real) -> real { if a <= b { a } else { b } }


/// a Same Day match of q shares adds exactly q to the consumed total, and leaves the lots of earlier days as they were
pub proof fn lemma_sameday_consumed(l0: Seq<AcquisitionLot>, l1: Seq<AcquisitionLot>, d: int, q: real, a: real)
    requires wf_lots(l0), l1.len() == l0.len(), a == avail_on(l0, d), a > 0real, 0real < q <= a,
        forall|k: int| 0 <= k < l0.len() ==> lot_same_but_consumed(#[trigger] l1[k], l0[k])
            && l1[k].consumed.v() == l0[k].consumed.v() + (if lot_matching(l0[k], d) { lot_avail(l0[k]) * (q / a) } else { 0real }),
    ensures rsum(l1, f_consumed()) == rsum(l0, f_consumed()) + q, rsum(l1, f_pos_avail_before(d)) == rsum(l0, f_pos_avail_before(d))
{
    let r = q / a;
    let dl = |l: AcquisitionLot| r * f_pos_avail_on(d)(l);
    assert forall|k: int| 0 <= k < l0.len() implies f_consumed()(l1[k]) == f_consumed()(#[trigger] l0[k]) + dl(l0[k]) by {
        let x = l0[k];
        if lot_matching(x, d) { assert(lot_avail(x) * r == r * lot_avail(x)) by(nonlinear_arith); }
        else { assert(f_pos_avail_on(d)(x) == 0real); assert(r * 0real == 0real) by(nonlinear_arith); }
    }
    rsum_ext_add(l0, l1, f_consumed(), f_consumed(), dl);
    rsum_scale(l0, f_pos_avail_on(d), dl, r);
    lemma_pos_avail_eq(l0, d);
    assert((q / a) * a == q) by(nonlinear_arith) requires a > 0real;
    assert forall|k: int| 0 <= k < l0.len() implies f_pos_avail_before(d)(#[trigger] l1[k]) == f_pos_avail_before(d)(l0[k]) by {
        assert(lot_same_but_consumed(l1[k], l0[k]));
        if l0[k].date.d() < d { assert(!lot_matching(l0[k], d)); }
    }
    rsum_ext(l1, l0, f_pos_avail_before(d), f_pos_avail_before(d));
}


// ---------- INV_RES: the shares a day needs for its own disposals are never claimed by earlier disposals (C01) ----------
pub open spec fn rmax(a: real, b: real) -> real { if a >= b { a } else { b } }
pub open spec fn is_buy_on(txs: Seq<GbpTransaction>, k: int, x: int, t: Seq<char>) -> bool { 0 <= k < txs.len() && txs[k].operation is Buy && txs[k].ticker@ == t && txs[k].date.d() == x }
pub open spec fn f_claim_on(fc: Map<usize, Decimal>, txs: Seq<GbpTransaction>, x: int, t: Seq<char>) -> spec_fn(int) -> real {
    |k: int| if is_buy_on(txs, k, x, t) { fc_get(fc, k as usize) } else { 0real }
}
/// shares of the purchases of t on day x already claimed by earlier disposals (30-day rule), in the purchases' own units
pub open spec fn claims_on(fc: Map<usize, Decimal>, txs: Seq<GbpTransaction>, x: int, t: Seq<char>) -> real { isum(txs.len() as int, f_claim_on(fc, txs, x, t)) }
pub open spec fn f_free_on(fc: Map<usize, Decimal>, txs: Seq<GbpTransaction>, x: int, t: Seq<char>) -> spec_fn(int) -> real {
    |k: int| if is_buy_on(txs, k, x, t) { buy_qty(txs[k]) - fc_get(fc, k as usize) } else { 0real }
}
/// shares of the purchases of t on day x among lines lo..n that no disposal has claimed yet
pub open spec fn free_upto(fc: Map<usize, Decimal>, txs: Seq<GbpTransaction>, lo: int, n: int, x: int, t: Seq<char>) -> real {
    isum(n, f_free_on(fc, txs, x, t)) - isum(lo, f_free_on(fc, txs, x, t))
}
/// INV_RES: whatever earlier disposals have claimed of day x's purchases leaves enough for day x's own disposals
pub open spec fn inv_res(fc: Map<usize, Decimal>, txs: Seq<GbpTransaction>) -> bool {
    forall|x: int, t: Seq<char>| #![trigger claims_on(fc, txs, x, t)] claims_on(fc, txs, x, t) <= rmax(0real, day_buys(txs, x, t) - day_sells(txs, x, t))
}
/// what is left of day x's own disposals to be set aside in the current look-ahead
pub open spec fn res_left(sdr: Map<(int, Seq<char>), Decimal>, txs: Seq<GbpTransaction>, x: int, t: Seq<char>) -> real {
    if sdr.contains_key((x, t)) { sdr[(x, t)].v() } else { day_sells(txs, x, t) }
}
pub proof fn lemma_isum_rsum<T>(s: Seq<T>, n: int, f: spec_fn(T) -> real, g: spec_fn(int) -> real)
    requires 0 <= n <= s.len(), forall|k: int| 0 <= k < s.len() ==> #[trigger] g(k) == f(s[k])
    ensures isum(n, g) == rsum(s.take(n), f)
    decreases n
{
    if n == 0 { assert(s.take(0) =~= Seq::<T>::empty()); } else { lemma_isum_rsum(s, n - 1, f, g); rsum_take_step(s, n - 1, f); }
}
pub proof fn lemma_day_sells_nonneg(txs: Seq<GbpTransaction>, x: int, t: Seq<char>)
    requires txs_valid(txs)
    ensures day_sells(txs, x, t) >= 0real
{
    assert forall|i: int| 0 <= i < txs.len() implies f_sell_on(x, t)(#[trigger] txs[i]) >= 0real by { assert(tx_valid(txs[i])); }
    rsum_nonneg(txs, f_sell_on(x, t));
}
/// unclaimed shares of a day, over the whole list: what was bought less what is claimed
pub proof fn lemma_free_all(fc: Map<usize, Decimal>, txs: Seq<GbpTransaction>, x: int, t: Seq<char>)
    requires txs.len() <= usize::MAX
    ensures isum(txs.len() as int, f_free_on(fc, txs, x, t)) == day_buys(txs, x, t) - claims_on(fc, txs, x, t)
{
    let n = txs.len() as int;
    let gb = |k: int| if 0 <= k < txs.len() { f_buy_on(x, t)(txs[k]) } else { 0real };
    lemma_isum_rsum(txs, n, f_buy_on(x, t), gb);
    assert(txs.take(n) =~= txs);
    let neg = |k: int| -f_claim_on(fc, txs, x, t)(k);
    isum_scale(n, f_claim_on(fc, txs, x, t), neg, -1real);
    let sum2 = |k: int| gb(k) + neg(k);
    lemma_isum_add(n, gb, neg, sum2);
    isum_ext(n, f_free_on(fc, txs, x, t), sum2);
}
pub proof fn lemma_isum_add(n: int, f: spec_fn(int) -> real, g: spec_fn(int) -> real, h: spec_fn(int) -> real)
    requires forall|k: int| 0 <= k < n ==> #[trigger] h(k) == f(k) + g(k)
    ensures isum(n, h) == isum(n, f) + isum(n, g)
    decreases n
{
    if n > 0 { lemma_isum_add(n - 1, f, g, h); }
}
/// the unclaimed shares seen so far never exceed the day's total (claims never exceed a purchase)
pub proof fn lemma_free_mono(fc: Map<usize, Decimal>, txs: Seq<GbpTransaction>, lo: int, n: int, x: int, t: Seq<char>)
    requires 0 <= lo <= n <= txs.len() <= usize::MAX, fc_capped(fc, txs)
    ensures 0real <= free_upto(fc, txs, lo, n, x, t) <= isum(txs.len() as int, f_free_on(fc, txs, x, t))
{
    let f = f_free_on(fc, txs, x, t);
    assert forall|k: int| 0 <= k < txs.len() implies #[trigger] f(k) >= 0real by { if is_buy_on(txs, k, x, t) { assert(fc_get(fc, k as usize) <= buy_qty(txs[k])); } }
    isum_mono(lo, n, f); isum_mono(n, txs.len() as int, f); isum_mono(0, lo, f);
}


// ---------- C01.sameday_first: each day's disposals are identified first with that day's own acquisitions ----------
pub open spec fn f_sd_qty_on(x: int, t: Seq<char>) -> spec_fn(MatchResult) -> real {
    |m: MatchResult| if m.match_detail.rule == MatchRule::SameDay && m.disposal_date.d() == x && m.disposal_ticker@ == t { m.match_detail.quantity.v() } else { 0real }
}
/// shares of t disposed of on day x that were identified with acquisitions of the same day
pub open spec fn sdq_on(ms: Seq<MatchResult>, x: int, t: Seq<char>) -> real { rsum(ms, f_sd_qty_on(x, t)) }
pub open spec fn day_done(txs: Seq<GbpTransaction>, i: int, x: int) -> bool { i >= txs.len() || x < txs[i].date.d() }
/// the Same Day rule in full: every processed day's same-day legs add up to min(sold that day, bought that day); nothing for days to come
pub open spec fn inv_sameday(ms: Seq<MatchResult>, txs: Seq<GbpTransaction>, i: int) -> bool {
    forall|x: int, t: Seq<char>| #![trigger sdq_on(ms, x, t)] sdq_on(ms, x, t) == (if day_done(txs, i, x) { rmin(day_sells(txs, x, t), day_buys(txs, x, t)) } else { 0real })
}
/// one SELL handled: only its Same Day leg (if any) counts, for its own day and security
pub proof fn lemma_sdq_sell(m0: Seq<MatchResult>, sd: Seq<MatchResult>, bb: Seq<MatchResult>, xs: Seq<MatchResult>, tx: GbpTransaction, x: int, t: Seq<char>)
    requires sd.len() <= 1, legs_of(sd, tx), forall|j: int| 0 <= j < sd.len() ==> (#[trigger] sd[j]).match_detail.rule == MatchRule::SameDay,
        forall|j: int| 0 <= j < bb.len() ==> (#[trigger] bb[j]).match_detail.rule == MatchRule::BedAndBreakfast,
        forall|j: int| 0 <= j < xs.len() ==> (#[trigger] xs[j]).match_detail.rule == MatchRule::Section104,
    ensures sdq_on(m0 + sd + bb + xs, x, t) == sdq_on(m0, x, t) + (if x == tx.date.d() && t == tx.ticker@ { rsum(sd, f_leg_qty()) } else { 0real })
{
    let f = f_sd_qty_on(x, t);
    rsum_concat(m0 + sd + bb, xs, f); rsum_concat(m0 + sd, bb, f); rsum_concat(m0, sd, f);
    assert forall|j: int| 0 <= j < bb.len() implies f(#[trigger] bb[j]) == 0real by {}
    rsum_zero(bb, f);
    assert forall|j: int| 0 <= j < xs.len() implies f(#[trigger] xs[j]) == 0real by {}
    rsum_zero(xs, f);
    if x == tx.date.d() && t == tx.ticker@ {
        assert forall|j: int| 0 <= j < sd.len() implies f(#[trigger] sd[j]) == f_leg_qty()(sd[j]) by {}
        rsum_ext(sd, sd, f, f_leg_qty());
    } else {
        assert forall|j: int| 0 <= j < sd.len() implies f(#[trigger] sd[j]) == 0real by {}
        rsum_zero(sd, f); rsum_zero(sd, f);
        if sd.len() == 0 { rsum_empty::<MatchResult>(f_leg_qty()); assert(sd =~= Seq::<MatchResult>::empty()); }
    }
}
/// the day's lines are lines i..e: the day's sales are the sales among them
pub proof fn lemma_day_sells_range(txs: Seq<GbpTransaction>, i: int, e: int, cur: int, t: Seq<char>)
    requires day_range(txs, i, e, cur), txs.len() <= usize::MAX
    ensures day_sells(txs, cur, t) == sold_in(txs, i, e, t), day_buys(txs, cur, t) == bought_in(txs, i, e, t)
{
    let n = txs.len() as int;
    let gs = |k: int| if 0 <= k < txs.len() { f_sell_on(cur, t)(txs[k]) } else { 0real };
    lemma_isum_rsum(txs, n, f_sell_on(cur, t), gs); assert(txs.take(n) =~= txs);
    isum_range_only(n, i, e, gs, f_sell_t(txs, t));
    let gb = |k: int| if 0 <= k < txs.len() { f_buy_on(cur, t)(txs[k]) } else { 0real };
    lemma_isum_rsum(txs, n, f_buy_on(cur, t), gb);
    isum_range_only(n, i, e, gb, f_buy_t(txs, t));
}
/// ... and the day's unclaimed shares are those of the purchases among them
pub proof fn lemma_free_range(fc: Map<usize, Decimal>, txs: Seq<GbpTransaction>, i: int, e: int, cur: int, t: Seq<char>)
    requires day_range(txs, i, e, cur), txs.len() <= usize::MAX
    ensures isum(txs.len() as int, f_free_on(fc, txs, cur, t)) == free_upto(fc, txs, i, e, cur, t)
{
    isum_range_only(txs.len() as int, i, e, f_free_on(fc, txs, cur, t), f_free_on(fc, txs, cur, t));
}
/// a date on which the list has no line: nothing sold, nothing bought
pub proof fn lemma_no_lines_on(txs: Seq<GbpTransaction>, x: int, t: Seq<char>)
    requires forall|k: int| 0 <= k < txs.len() ==> (#[trigger] txs[k]).date.d() != x
    ensures day_sells(txs, x, t) == 0real, day_buys(txs, x, t) == 0real
{
    assert forall|k: int| 0 <= k < txs.len() implies f_sell_on(x, t)(#[trigger] txs[k]) == 0real by {}
    rsum_zero(txs, f_sell_on(x, t));
    assert forall|k: int| 0 <= k < txs.len() implies f_buy_on(x, t)(#[trigger] txs[k]) == 0real by {}
    rsum_zero(txs, f_buy_on(x, t));
}
pub proof fn lemma_day_buys_nonneg(txs: Seq<GbpTransaction>, x: int, t: Seq<char>)
    requires txs_valid(txs)
    ensures day_buys(txs, x, t) >= 0real
{
    assert forall|i: int| 0 <= i < txs.len() implies f_buy_on(x, t)(#[trigger] txs[i]) >= 0real by { assert(tx_valid(txs[i])); }
    rsum_nonneg(txs, f_buy_on(x, t));
}
/// dropping a claim (the purchase has been reached) only lowers the claims of its day
pub proof fn lemma_claims_le(fc0: Map<usize, Decimal>, fc1: Map<usize, Decimal>, txs: Seq<GbpTransaction>, x: int, t: Seq<char>)
    requires txs.len() <= usize::MAX, forall|k: usize| #![trigger fc_get(fc1, k)] fc_get(fc1, k) <= fc_get(fc0, k)
    ensures claims_on(fc1, txs, x, t) <= claims_on(fc0, txs, x, t)
{
    assert forall|k: int| 0 <= k < txs.len() implies #[trigger] f_claim_on(fc1, txs, x, t)(k) <= f_claim_on(fc0, txs, x, t)(k) by { assert(fc_get(fc1, k as usize) <= fc_get(fc0, k as usize)); }
    isum_le(txs.len() as int, f_claim_on(fc1, txs, x, t), f_claim_on(fc0, txs, x, t));
}


/// adding the lot of BUY line k makes its unreserved part available for the day's matching
pub proof fn lemma_add_lot_lav(led0: Map<Seq<char>, matcher::AcquisitionLedger>, led1: Map<Seq<char>, matcher::AcquisitionLedger>, txs: Seq<GbpTransaction>, offs: Seq<Decimal>, k: int, t: Seq<char>)
    requires
        0 <= k < txs.len(), txs[k].operation is Buy,
        ({ let tk = txs[k].ticker@; let l0 = if led0.contains_key(tk) { led0[tk]@ } else { Seq::<AcquisitionLot>::empty() };
           led1.dom() == led0.dom().insert(tk) && (forall|q: Seq<char>| q != tk && led0.contains_key(q) ==> #[trigger] led1[q] == led0[q])
           && led1[tk]@.len() == l0.len() + 1 && led1[tk]@.drop_last() == l0
           && lot_is_tx(led1[tk]@.last(), tk, txs, offs) && led1[tk]@.last().transaction_idx == k
           && led1[tk]@.last().consumed.v() == 0real && led1[tk]@.last().in_pool.v() == 0real }),
    ensures lav(led1, t, txs[k].date.d()) == lav(led0, t, txs[k].date.d()) + (if txs[k].ticker@ == t { buy_qty(txs[k]) - led1[txs[k].ticker@]@.last().reserved.v() } else { 0real })
{
    let tk = txs[k].ticker@; let d = txs[k].date.d();
    let l0 = if led0.contains_key(tk) { led0[tk]@ } else { Seq::<AcquisitionLot>::empty() };
    let l1 = led1[tk]@; let lot = l1.last();
    if t == tk {
        assert(l1 =~= l0.push(lot)); rsum_push(l0, lot, f_avail_on(d));
        if !led0.contains_key(tk) { rsum_empty::<AcquisitionLot>(f_avail_on(d)); }
        assert(lot.date.d() == d);
    } else {
        if led0.contains_key(t) { assert(led1[t] == led0[t]); } else { assert(!led1.contains_key(t)); }
    }
}
pub proof fn lemma_claims_nonneg(fc: Map<usize, Decimal>, txs: Seq<GbpTransaction>, x: int, t: Seq<char>)
    requires txs.len() <= usize::MAX, fc_capped(fc, txs)
    ensures claims_on(fc, txs, x, t) >= 0real
{
    assert forall|k: int| 0 <= k < txs.len() implies #[trigger] f_claim_on(fc, txs, x, t)(k) >= 0real by { if is_buy_on(txs, k, x, t) { assert(fc_get(fc, k as usize) >= 0real); } }
    isum_nonneg(txs.len() as int, f_claim_on(fc, txs, x, t));
}


/// one instance of sortedness (for functions that hide the two-index quantifier)
pub proof fn lemma_sorted(txs: Seq<GbpTransaction>, a: int, b: int)
    requires sorted_by_date(txs), 0 <= a <= b < txs.len()
    ensures txs[a].date.d() <= txs[b].date.d()
{}


/// the purchases of day x all lie before line n (the list is date-ordered and line n is dated later): the tail contributes nothing
pub proof fn lemma_free_tail(fc: Map<usize, Decimal>, txs: Seq<GbpTransaction>, n: int, x: int, t: Seq<char>)
    requires sorted_by_date(txs), 0 <= n <= txs.len(), n < txs.len() ==> txs[n].date.d() > x
    ensures isum(txs.len() as int, f_free_on(fc, txs, x, t)) == isum(n, f_free_on(fc, txs, x, t))
    decreases txs.len() - n
{
    if n < txs.len() {
        assert(txs[n].date.d() <= txs[txs.len() - 1].date.d());
        lemma_free_tail_step(fc, txs, n, txs.len() as int, x, t);
    }
}
pub proof fn lemma_free_tail_step(fc: Map<usize, Decimal>, txs: Seq<GbpTransaction>, n: int, m: int, x: int, t: Seq<char>)
    requires sorted_by_date(txs), 0 <= n <= m <= txs.len(), n < txs.len() ==> txs[n].date.d() > x
    ensures isum(m, f_free_on(fc, txs, x, t)) == isum(n, f_free_on(fc, txs, x, t))
    decreases m - n
{
    if m > n { lemma_free_tail_step(fc, txs, n, m - 1, x, t); assert(txs[n].date.d() <= txs[m - 1].date.d()); }
}
/// ... and none lies at or before a line dated earlier
pub proof fn lemma_free_head(fc: Map<usize, Decimal>, txs: Seq<GbpTransaction>, lo: int, x: int, t: Seq<char>)
    requires sorted_by_date(txs), 0 <= lo <= txs.len(), lo > 0 ==> txs[lo - 1].date.d() < x
    ensures isum(lo, f_free_on(fc, txs, x, t)) == 0real
{
    assert forall|k: int| 0 <= k < lo implies #[trigger] f_free_on(fc, txs, x, t)(k) == 0real by { assert(txs[k].date.d() <= txs[lo - 1].date.d()); }
    isum_zero(lo, f_free_on(fc, txs, x, t));
}


// ---------- L3 corollaries over the proved characterisations (relational statements about the quantities Matcher::process is proved to return) ----------
// Matcher::process is proved to return, for every (date x, security t) of the caller's list L:
//     total leg quantity     == day_sells(L, x, t)                                   (C02.leg_sum.total)
//     Same Day leg quantity  == rmin(day_sells(L, x, t), day_buys(L, x, t))           (C01.sameday_first)
// The lemmas below show that these two figures are unchanged by the transformations of C06, C09 and C12.

/// C06 (line order, file split): a permutation of the lines leaves both figures unchanged
pub proof fn lemma_l3_permutation(a: Seq<GbpTransaction>, b: Seq<GbpTransaction>, x: int, t: Seq<char>)
    requires a.to_multiset() == b.to_multiset()
    ensures day_sells(a, x, t) == day_sells(b, x, t), rmin(day_sells(a, x, t), day_buys(a, x, t)) == rmin(day_sells(b, x, t), day_buys(b, x, t))
{
    rsum_multiset(a, b, f_sell_on(x, t)); rsum_multiset(a, b, f_buy_on(x, t));
}
/// C12 (later transactions): appending lines dated after day x leaves both figures of day x unchanged
pub proof fn lemma_l3_append_later(a: Seq<GbpTransaction>, more: Seq<GbpTransaction>, x: int, t: Seq<char>)
    requires forall|k: int| 0 <= k < more.len() ==> (#[trigger] more[k]).date.d() > x
    ensures day_sells(a + more, x, t) == day_sells(a, x, t), day_buys(a + more, x, t) == day_buys(a, x, t)
{
    rsum_concat(a, more, f_sell_on(x, t)); rsum_concat(a, more, f_buy_on(x, t));
    assert forall|k: int| 0 <= k < more.len() implies f_sell_on(x, t)(#[trigger] more[k]) == 0real by {}
    rsum_zero(more, f_sell_on(x, t));
    assert forall|k: int| 0 <= k < more.len() implies f_buy_on(x, t)(#[trigger] more[k]) == 0real by {}
    rsum_zero(more, f_buy_on(x, t));
}
/// C09 (other securities): inserting or removing a line of another security leaves both figures of t unchanged
pub proof fn lemma_l3_other_security(a: Seq<GbpTransaction>, j: int, x: int, t: Seq<char>)
    requires 0 <= j < a.len(), a[j].ticker@ != t
    ensures day_sells(a.remove(j), x, t) == day_sells(a, x, t), day_buys(a.remove(j), x, t) == day_buys(a, x, t)
{
    rsum_remove(a, j, f_sell_on(x, t)); rsum_remove(a, j, f_buy_on(x, t));
}
/// C06 (fill splitting): recording one purchase or sale as two fills on the same day leaves both figures unchanged
pub proof fn lemma_l3_fill_split(a: Seq<GbpTransaction>, j: int, p1: GbpTransaction, p2: GbpTransaction, x: int, t: Seq<char>)
    requires 0 <= j < a.len(), on_key(p1, a[j].date.d(), a[j].ticker@), on_key(p2, a[j].date.d(), a[j].ticker@),
        (a[j].operation is Sell && p1.operation is Sell && p2.operation is Sell && sell_qty(p1) + sell_qty(p2) == sell_qty(a[j]))
        || (a[j].operation is Buy && p1.operation is Buy && p2.operation is Buy && buy_qty(p1) + buy_qty(p2) == buy_qty(a[j]))
    ensures day_sells(a.remove(j).push(p1).push(p2), x, t) == day_sells(a, x, t), day_buys(a.remove(j).push(p1).push(p2), x, t) == day_buys(a, x, t)
{
    let r = a.remove(j);
    rsum_remove(a, j, f_sell_on(x, t)); rsum_remove(a, j, f_buy_on(x, t));
    rsum_push(r, p1, f_sell_on(x, t)); rsum_push(r.push(p1), p2, f_sell_on(x, t));
    rsum_push(r, p1, f_buy_on(x, t)); rsum_push(r.push(p1), p2, f_buy_on(x, t));
}


// ---------- L3 for the closing holding: lines of another security do not change the position of t ----------
/// the state after the first n lines depends on those lines only
pub proof fn lemma_net_prefix(a: Seq<GbpTransaction>, b: Seq<GbpTransaction>, n: int, t: Seq<char>)
    requires 0 <= n <= a.len(), n <= b.len(), forall|k: int| 0 <= k < n ==> #[trigger] a[k] == b[k]
    ensures net_state(a, n, t) == net_state(b, n, t)
    decreases n
{
    if n > 0 {
        lemma_net_prefix(a, b, n - 1, t);
        assert(a[n - 1] == b[n - 1]);
        if n - 1 > 0 { assert(a[n - 2] == b[n - 2]); }
        assert(is_day_start(a, n - 1) == is_day_start(b, n - 1));
    }
}
/// one step of the fold, as a function of the previous state, the day-start flag and the line
pub open spec fn net_step(s0: (real, real), start: bool, tx: GbpTransaction, t: Seq<char>) -> (real, real) {
    let q = if start { s0.0 * s0.1 } else { s0.0 };
    let f = if start { 1real } else { s0.1 };
    if tx.ticker@ != t { (q, f) } else {
        match tx.operation {
            Operation::Buy { amount, .. } => (q + amount.v(), f),
            Operation::Sell { amount, .. } => (q - amount.v(), f),
            _ => (q, ratio_effect(tx, f)),
        }
    }
}
pub proof fn lemma_net_unfold(txs: Seq<GbpTransaction>, n: int, t: Seq<char>)
    requires 0 < n <= txs.len()
    ensures net_state(txs, n, t) == net_step(net_state(txs, n - 1, t), is_day_start(txs, n - 1), txs[n - 1], t)
{}
/// removing line j (of another security) from a date-ordered list: from line j+1 on the two folds agree, or the full list has just folded
/// the day's factor in (at j, the first line of its day) and the shorter list will do so at its next line
pub open spec fn rem_rel(txs: Seq<GbpTransaction>, j: int, n: int, t: Seq<char>) -> bool {
    let rem = txs.remove(j); let sf = net_state(txs, n, t); let sr = net_state(rem, n - 1, t);
    sf == sr || (sf.0 == sr.0 * sr.1 && sf.1 == 1real && (n == txs.len() || is_day_start(rem, n - 1)))
}
pub proof fn lemma_net_remove_other_rel(txs: Seq<GbpTransaction>, j: int, n: int, t: Seq<char>)
    requires sorted_by_date(txs), 0 <= j < n <= txs.len(), txs[j].ticker@ != t
    ensures rem_rel(txs, j, n, t)
    decreases n
{
    let rem = txs.remove(j);
    if n == j + 1 {
        lemma_net_prefix(rem, txs, j, t);
        lemma_net_unfold(txs, n, t);
        if is_day_start(txs, j) && n < txs.len() {
            // rem's next line is txs[j+1]; its predecessor in rem is txs[j-1], dated before txs[j]
            assert(rem[j] == txs[j + 1]);
            if j > 0 { assert(rem[j - 1] == txs[j - 1]); assert(txs[j].date.d() <= txs[j + 1].date.d()); }
        }
        assert(1real * 1real == 1real) by(nonlinear_arith);
    } else {
        lemma_net_remove_other_rel(txs, j, n - 1, t);
        lemma_net_unfold(txs, n, t); lemma_net_unfold(rem, n - 1, t);
        assert(rem[n - 2] == txs[n - 1]);
        let sf0 = net_state(txs, n - 1, t); let sr0 = net_state(rem, n - 2, t);
        // day-start flags of the line being folded
        if n - 2 > j { assert(rem[n - 3] == txs[n - 2]); }
        if n - 1 == j + 1 {
            // predecessor in txs is line j, in rem it is line j-1
            if j > 0 { assert(rem[j - 1] == txs[j - 1]); assert(txs[j - 1].date.d() <= txs[j].date.d()); assert(txs[j].date.d() <= txs[j + 1].date.d()); }
        }
        if sf0 == sr0 {
            if n - 1 == j + 1 && !is_day_start(txs, j) {
                // j was not the first line of its day: both predecessors carry the same date
                assert(txs[j - 1].date.d() == txs[j].date.d());
            }
        } else {
            let qq = sr0.0 * sr0.1;
            assert(qq * 1real == qq) by(nonlinear_arith);
        }
        if n < txs.len() { assert(rem[n - 1] == txs[n]); }
    }
}
/// L3 (C09): removing a line of another security leaves the position of t unchanged
pub proof fn lemma_l3_holding_other_security(txs: Seq<GbpTransaction>, j: int, t: Seq<char>)
    requires sorted_by_date(txs), 0 <= j < txs.len(), txs[j].ticker@ != t
    ensures net_total(txs.remove(j), txs.len() - 1, t) == net_total(txs, txs.len() as int, t)
{
    lemma_net_remove_other_rel(txs, j, txs.len() as int, t);
    let sr = net_state(txs.remove(j), txs.len() - 1, t); let qq = sr.0 * sr.1;
    assert(qq * 1real == qq) by(nonlinear_arith);
}

} // verus!
