// ---- spec/matcher_spec.rs : spec functions taken from the property text ----
verus! {
} // verus!
