// ---- spec/matcher_spec.rs : spec functions and lemmas (hand-written from the property text) ----
verus! {

use crate::matcher::acquisition_ledger::AcquisitionLot;
use crate::models::*;
use crate::matcher::MatchResult;

// ---------- acquisition lots ----------
pub open spec fn lot_avail(l: AcquisitionLot) -> real { l.original_amount.v() - l.consumed.v() - l.reserved.v() - l.in_pool.v() }
pub open spec fn lot_held(l: AcquisitionLot) -> real { l.original_amount.v() - l.consumed.v() }
pub open spec fn lot_base_cost(l: AcquisitionLot) -> real { l.original_amount.v() * l.price.v() + l.expenses.v() }
pub open spec fn lot_adj_cost(l: AcquisitionLot) -> real { lot_base_cost(l) + l.cost_offset.v() }
/// the one unit cost used by same-day, 30-day and pooling alike (C03.lot_unit)
pub open spec fn lot_unit(l: AcquisitionLot) -> real {
    if l.original_amount.v() != 0real { lot_adj_cost(l) / l.original_amount.v() } else { 0real }
}
/// every share of a lot is in exactly one place and no counter is negative
pub open spec fn wf_lot(l: AcquisitionLot) -> bool {
    &&& l.original_amount.v() >= 0real
    &&& l.consumed.v() >= 0real
    &&& l.reserved.v() >= 0real
    &&& l.in_pool.v() >= 0real
    &&& l.consumed.v() + l.reserved.v() + l.in_pool.v() <= l.original_amount.v()
}
pub open spec fn wf_lots(s: Seq<AcquisitionLot>) -> bool { forall|i: int| 0 <= i < s.len() ==> wf_lot(#[trigger] s[i]) }

/// same lot except for the `consumed` counter
pub open spec fn lot_same_but_consumed(a: AcquisitionLot, b: AcquisitionLot) -> bool {
    a.transaction_idx == b.transaction_idx && a.date == b.date && a.original_amount == b.original_amount && a.price == b.price
    && a.expenses == b.expenses && a.cost_offset == b.cost_offset && a.reserved == b.reserved && a.in_pool == b.in_pool
}
pub open spec fn lot_same_but_in_pool(a: AcquisitionLot, b: AcquisitionLot) -> bool {
    a.transaction_idx == b.transaction_idx && a.date == b.date && a.original_amount == b.original_amount && a.price == b.price
    && a.expenses == b.expenses && a.cost_offset == b.cost_offset && a.reserved == b.reserved && a.consumed == b.consumed
}
pub open spec fn lot_same_but_offset(a: AcquisitionLot, b: AcquisitionLot) -> bool {
    a.transaction_idx == b.transaction_idx && a.date == b.date && a.original_amount == b.original_amount && a.price == b.price
    && a.expenses == b.expenses && a.consumed == b.consumed && a.reserved == b.reserved && a.in_pool == b.in_pool
}

pub open spec fn f_avail_on(date: int) -> spec_fn(AcquisitionLot) -> real {
    |l: AcquisitionLot| if l.date.d() == date { lot_avail(l) } else { 0real }
}
/// available shares counted the way the code counts them for matching (only positive availability)
pub open spec fn f_pos_avail_on(date: int) -> spec_fn(AcquisitionLot) -> real {
    |l: AcquisitionLot| if l.date.d() == date && lot_avail(l) > 0real { lot_avail(l) } else { 0real }
}
pub open spec fn f_pos_avail_cost_on(date: int) -> spec_fn(AcquisitionLot) -> real {
    |l: AcquisitionLot| if l.date.d() == date && lot_avail(l) > 0real { lot_avail(l) * lot_unit(l) } else { 0real }
}
pub open spec fn f_held() -> spec_fn(AcquisitionLot) -> real { |l: AcquisitionLot| lot_held(l) }
pub open spec fn f_pos_held() -> spec_fn(AcquisitionLot) -> real { |l: AcquisitionLot| if lot_held(l) > 0real { lot_held(l) } else { 0real } }
pub open spec fn f_offset() -> spec_fn(AcquisitionLot) -> real { |l: AcquisitionLot| l.cost_offset.v() }
pub open spec fn f_held_adj_cost() -> spec_fn(AcquisitionLot) -> real { |l: AcquisitionLot| if lot_held(l) > 0real { lot_adj_cost(l) } else { 0real } }
pub open spec fn f_consumed() -> spec_fn(AcquisitionLot) -> real { |l: AcquisitionLot| l.consumed.v() }
pub open spec fn f_in_pool() -> spec_fn(AcquisitionLot) -> real { |l: AcquisitionLot| l.in_pool.v() }
pub open spec fn f_consumed_cost() -> spec_fn(AcquisitionLot) -> real { |l: AcquisitionLot| l.consumed.v() * lot_unit(l) }
pub open spec fn f_in_pool_cost() -> spec_fn(AcquisitionLot) -> real { |l: AcquisitionLot| l.in_pool.v() * lot_unit(l) }

pub open spec fn avail_on(s: Seq<AcquisitionLot>, date: int) -> real { rsum(s, f_avail_on(date)) }
pub open spec fn pos_avail_on(s: Seq<AcquisitionLot>, date: int) -> real { rsum(s, f_pos_avail_on(date)) }

/// under wf, counting only positive availability is the same as counting all of it
pub proof fn lemma_pos_avail_eq(s: Seq<AcquisitionLot>, date: int)
    requires wf_lots(s)
    ensures pos_avail_on(s, date) == avail_on(s, date), avail_on(s, date) >= 0real
{
    rsum_ext(s, s, f_pos_avail_on(date), f_avail_on(date));
    rsum_nonneg(s, f_avail_on(date));
}


// ---------- same-day lots: the lots of one date that still have shares, in ledger order ----------
pub open spec fn lot_matching(l: AcquisitionLot, d: int) -> bool { l.date.d() == d && lot_avail(l) > 0real }
pub open spec fn mi(s: Seq<AcquisitionLot>, d: int) -> Seq<int>
    decreases s.len()
{
    if s.len() == 0 { Seq::<int>::empty() } else {
        let r = mi(s.drop_last(), d);
        if lot_matching(s.last(), d) { r.push(s.len() - 1) } else { r }
    }
}
pub proof fn lemma_mi(s: Seq<AcquisitionLot>, d: int)
    ensures
        forall|j: int| 0 <= j < mi(s, d).len() ==> 0 <= #[trigger] mi(s, d)[j] < s.len() && lot_matching(s[mi(s, d)[j]], d),
        forall|j1: int, j2: int| 0 <= j1 < j2 < mi(s, d).len() ==> #[trigger] mi(s, d)[j1] < #[trigger] mi(s, d)[j2],
        forall|k: int| 0 <= k < s.len() && lot_matching(#[trigger] s[k], d) ==> exists|j: int| 0 <= j < mi(s, d).len() && mi(s, d)[j] == k,
    decreases s.len()
{
    if s.len() > 0 {
        let p = s.drop_last();
        lemma_mi(p, d);
        let r = mi(p, d);
        assert forall|k: int| 0 <= k < s.len() && lot_matching(#[trigger] s[k], d) implies exists|j: int| 0 <= j < mi(s, d).len() && mi(s, d)[j] == k by {
            if k < s.len() - 1 {
                assert(p[k] == s[k]);
                let j = choose|j: int| 0 <= j < r.len() && r[j] == k;
                assert(mi(s, d)[j] == k);
            } else {
                assert(mi(s, d)[r.len() as int] == k);
            }
        }
        assert forall|j: int| 0 <= j < mi(s, d).len() implies 0 <= #[trigger] mi(s, d)[j] < s.len() && lot_matching(s[mi(s, d)[j]], d) by {
            if j < r.len() { assert(p[r[j]] == s[r[j]]); }
        }
    }
}
pub proof fn lemma_mi_take_step(s: Seq<AcquisitionLot>, i: int, d: int)
    requires 0 <= i < s.len()
    ensures mi(s.take(i + 1), d) == (if lot_matching(s[i], d) { mi(s.take(i), d).push(i) } else { mi(s.take(i), d) })
{
    assert(s.take(i + 1).drop_last() =~= s.take(i));
    assert(s.take(i + 1).last() == s[i]);
}
/// (index, available) pairs as collected by the same-day matcher
pub open spec fn f_p1() -> spec_fn((usize, Decimal)) -> real { |p: (usize, Decimal)| p.1.v() }
pub open spec fn lod_idx(lod: Seq<(usize, Decimal)>) -> Seq<int> { lod.map(|j: int, p: (usize, Decimal)| p.0 as int) }


// ---------- transactions ----------
pub open spec fn is_sell(tx: GbpTransaction) -> bool { tx.operation is Sell }
pub open spec fn is_buy(tx: GbpTransaction) -> bool { tx.operation is Buy }
pub open spec fn sell_qty(tx: GbpTransaction) -> real { tx.operation->Sell_amount.v() }
pub open spec fn sell_price(tx: GbpTransaction) -> real { tx.operation->Sell_price.v() }
pub open spec fn sell_fees(tx: GbpTransaction) -> real { tx.operation->Sell_fees.v() }
pub open spec fn buy_qty(tx: GbpTransaction) -> real { tx.operation->Buy_amount.v() }
pub open spec fn sorted_by_date(txs: Seq<GbpTransaction>) -> bool {
    forall|i: int, j: int| 0 <= i <= j < txs.len() ==> txs[i].date.d() <= txs[j].date.d()
}
/// shares of `ticker` sold on `date` (all SELL lines of that day)
pub open spec fn f_sell_on(date: int, ticker: Seq<char>) -> spec_fn(GbpTransaction) -> real {
    |tx: GbpTransaction| if tx.date.d() == date && tx.ticker@ == ticker && tx.operation is Sell { tx.operation->Sell_amount.v() } else { 0real }
}
pub open spec fn f_buy_on(date: int, ticker: Seq<char>) -> spec_fn(GbpTransaction) -> real {
    |tx: GbpTransaction| if tx.date.d() == date && tx.ticker@ == ticker && tx.operation is Buy { tx.operation->Buy_amount.v() } else { 0real }
}
pub open spec fn day_sells(txs: Seq<GbpTransaction>, date: int, ticker: Seq<char>) -> real { rsum(txs, f_sell_on(date, ticker)) }
pub open spec fn day_buys(txs: Seq<GbpTransaction>, date: int, ticker: Seq<char>) -> real { rsum(txs, f_buy_on(date, ticker)) }
/// s106A window: acquisition on day x is matched with a disposal on day d iff 0 < x - d <= 30
pub open spec fn in_bnb_window(d: int, x: int) -> bool { 0 < x - d <= 30 }
/// effect of a SPLIT / UNSPLIT line on a share count (C10): SPLIT r multiplies, UNSPLIT r divides
pub open spec fn ratio_effect(tx: GbpTransaction, c: real) -> real {
    match tx.operation {
        Operation::Split { ratio } => c * ratio.v(),
        Operation::Unsplit { ratio } => if ratio.v() != 0real { c / ratio.v() } else { c },
        _ => c,
    }
}
pub open spec fn splits_nonzero(txs: Seq<GbpTransaction>) -> bool {
    forall|i: int| 0 <= i < txs.len() ==> ((#[trigger] txs[i]).operation is Split ==> txs[i].operation->Split_ratio.v() != 0real)
}
pub open spec fn fc_get(fc: Map<usize, Decimal>, i: usize) -> real { if fc.contains_key(i) { fc[i].v() } else { 0real } }

// ---------- legs ----------
/// C04.pro_rata / C04.leg_gain: figures of one leg of q shares out of a sale of big_q
pub open spec fn leg_figures(m: MatchResult, tx: GbpTransaction, q: real, big_q: real, price: real, fees: real) -> bool {
    &&& m.disposal_date == tx.date
    &&& m.disposal_ticker@ == tx.ticker@
    &&& m.match_detail.quantity.v() == q
    &&& m.gross_proceeds.v() == q * price
    &&& m.proceeds.v() == q * price - fees * (q / big_q)
    &&& m.match_detail.gain_or_loss.v() == m.proceeds.v() - m.match_detail.allowable_cost.v()
}
pub open spec fn f_leg_qty() -> spec_fn(MatchResult) -> real { |m: MatchResult| m.match_detail.quantity.v() }
pub open spec fn f_leg_cost() -> spec_fn(MatchResult) -> real { |m: MatchResult| m.match_detail.allowable_cost.v() }
pub open spec fn rule_rank(r: MatchRule) -> int { match r { MatchRule::SameDay => 0, MatchRule::BedAndBreakfast => 1, MatchRule::Section104 => 2 } }
/// unit cost of a BUY line with its capital-return/accumulation offset: the same formula as lot_unit
pub open spec fn buy_unit(amount: real, price: real, fees: real, offset: real) -> real {
    if amount != 0real { (amount * price + fees + offset) / amount } else { 0real }
}


// ---------- 30-day rule ----------
pub open spec fn offset_at(s: Seq<Decimal>, k: int) -> real { if 0 <= k < s.len() { s[k].v() } else { 0real } }
/// C01.bnb_cost / C03.lot_unit: leg j of a look-ahead is costed at the matched purchase's own unit cost
/// (its quantity, price, fees and capital-return offset), for the quantity expressed in the purchase's units
pub open spec fn bnb_leg_cost_ok(m: MatchResult, qb: real, k: int, txs: Seq<GbpTransaction>, offsets: Seq<Decimal>, sell_idx: int) -> bool {
    &&& sell_idx < k < txs.len()
    &&& txs[k].operation is Buy
    &&& txs[k].ticker@ == txs[sell_idx].ticker@
    &&& m.match_detail.acquisition_date == Some(txs[k].date)
    &&& qb >= 0real
    &&& m.match_detail.allowable_cost.v() == qb * buy_unit(buy_qty(txs[k]), txs[k].operation->Buy_price.v(), txs[k].operation->Buy_fees.v(), offset_at(offsets, k))
}
pub open spec fn ratios_ok(txs: Seq<GbpTransaction>) -> bool {
    forall|i: int| 0 <= i < txs.len() ==> (((#[trigger] txs[i]).operation is Split ==> txs[i].operation->Split_ratio.v() > 0real)
        && (txs[i].operation is Unsplit ==> txs[i].operation->Unsplit_ratio.v() >= 0real))
}
/// C10 / C01.split_rescale: the factor that converts a share count at the sale into the units current at index `hi`:
/// SPLIT and UNSPLIT lines of the SAME security dated inside the 30-day window after the sale, between the two lines, compose in order
pub open spec fn split_factor(txs: Seq<GbpTransaction>, sell_idx: int, hi: int) -> real
    decreases hi
{
    if hi <= sell_idx + 1 || hi > txs.len() || sell_idx < 0 { 1real } else {
        let c = split_factor(txs, sell_idx, hi - 1);
        let tx = txs[hi - 1];
        if tx.ticker@ == txs[sell_idx].ticker@ && in_bnb_window(txs[sell_idx].date.d(), tx.date.d()) { ratio_effect(tx, c) } else { c }
    }
}
pub open spec fn leg_acq_d(m: MatchResult) -> int { m.match_detail.acquisition_date->Some_0.d() }
/// C01.window + C04: a 30-day leg of `sell`
pub open spec fn bnb_leg_ok(m: MatchResult, sell: GbpTransaction) -> bool {
    &&& m.match_detail.rule == MatchRule::BedAndBreakfast
    &&& m.match_detail.acquisition_date is Some
    &&& in_bnb_window(sell.date.d(), leg_acq_d(m))
    &&& m.match_detail.quantity.v() >= 0real
    &&& leg_figures(m, sell, m.match_detail.quantity.v(), sell_qty(sell), sell_price(sell), sell_fees(sell))
}
/// claims never exceed the purchase they are made against (C02.day_cap, per acquisition)
pub open spec fn fc_capped(fc: Map<usize, Decimal>, txs: Seq<GbpTransaction>) -> bool {
    forall|i: usize| #![trigger fc_get(fc, i)] (i as int) < txs.len() && txs[i as int].operation is Buy ==> 0real <= fc_get(fc, i) <= buy_qty(txs[i as int])
}
/// what a 30-day look-ahead from `sell_idx` may change in the claim ledger (C01.claim_ledger, C09.frame, C12.lookahead)
pub open spec fn fc_step(fc0: Map<usize, Decimal>, fc1: Map<usize, Decimal>, txs: Seq<GbpTransaction>, sell_idx: int) -> bool {
    &&& forall|i: usize| #![trigger fc_get(fc1, i)] fc_get(fc1, i) >= fc_get(fc0, i)
    &&& forall|i: usize| #![trigger fc_get(fc1, i)] fc_get(fc1, i) != fc_get(fc0, i) ==> sell_idx < i < txs.len()
          && txs[i as int].ticker@ == txs[sell_idx].ticker@ && txs[i as int].operation is Buy
          && in_bnb_window(txs[sell_idx].date.d(), txs[i as int].date.d())
}
pub open spec fn sdr_step(s0: Map<(int, Seq<char>), Decimal>, s1: Map<(int, Seq<char>), Decimal>, ticker: Seq<char>) -> bool {
    &&& forall|k: (int, Seq<char>)| s0.contains_key(k) ==> #[trigger] s1.contains_key(k)
    &&& forall|k: (int, Seq<char>)| k.1 != ticker && #[trigger] s1.contains_key(k) ==> s0.contains_key(k) && s1[k] == s0[k]
}


/// legs of one disposal appear Same Day first, then 30-day, then Section 104 (C01.cascade_order)
pub open spec fn legs_ranked(legs: Seq<MatchResult>) -> bool {
    forall|i: int, j: int| 0 <= i < j < legs.len() ==> rule_rank((#[trigger] legs[i]).match_detail.rule) <= rule_rank((#[trigger] legs[j]).match_detail.rule)
}
pub open spec fn legs_of(legs: Seq<MatchResult>, tx: GbpTransaction) -> bool {
    forall|i: int| 0 <= i < legs.len() ==> (#[trigger] legs[i]).disposal_date == tx.date && legs[i].disposal_ticker@ == tx.ticker@
}
pub open spec fn held_for_sale(ledgers: Map<Seq<char>, matcher::AcquisitionLedger>, pools: Map<Seq<char>, Section104Holding>, tx: GbpTransaction) -> real {
    (if ledgers.contains_key(tx.ticker@) { avail_on(ledgers[tx.ticker@]@, tx.date.d()) } else { 0real })
    + (if pools.contains_key(tx.ticker@) { pools[tx.ticker@].quantity.v() } else { 0real })
}


// ---------- input validity: what the DSL grammar guarantees (decimal = digits[.digits]: never negative, zero allowed) ----------
pub open spec fn tx_valid(tx: GbpTransaction) -> bool {
    match tx.operation {
        Operation::Buy { amount, price, fees } => amount.v() >= 0real && price.v() >= 0real && fees.v() >= 0real,
        Operation::Sell { amount, price, fees } => amount.v() >= 0real && price.v() >= 0real && fees.v() >= 0real,
        _ => true,
    }
}
pub open spec fn txs_valid(txs: Seq<GbpTransaction>) -> bool { forall|i: int| 0 <= i < txs.len() ==> tx_valid(#[trigger] txs[i]) }
pub open spec fn ledgers_wf(m: Map<Seq<char>, matcher::AcquisitionLedger>) -> bool { forall|k: Seq<char>| #[trigger] m.contains_key(k) ==> wf_lots(m[k]@) }
pub open spec fn ledgers_idx_lt(m: Map<Seq<char>, matcher::AcquisitionLedger>, n: int) -> bool {
    forall|k: Seq<char>, j: int| #![trigger m[k]@[j]] m.contains_key(k) && 0 <= j < m[k]@.len() ==> (m[k]@[j].transaction_idx as int) < n
}
/// strict positivity of every split ratio (what the check added by the F3 fix establishes)
pub open spec fn ratios_pos(txs: Seq<GbpTransaction>) -> bool {
    forall|i: int| 0 <= i < txs.len() ==> (((#[trigger] txs[i]).operation is Split ==> txs[i].operation->Split_ratio.v() > 0real)
        && (txs[i].operation is Unsplit ==> txs[i].operation->Unsplit_ratio.v() > 0real))
}


// ---------- L2: what the day loop of Matcher::process maintains ----------
/// C03.offsets_carried / C01.lot: every lot is the BUY line it was created from (same date, quantity, price, fees)
/// and carries that line's capital-return/accumulation offset
pub open spec fn lot_is_tx(l: AcquisitionLot, t: Seq<char>, txs: Seq<GbpTransaction>, offsets: Seq<Decimal>) -> bool {
    let k = l.transaction_idx as int;
    &&& k < txs.len() && txs[k].operation is Buy && txs[k].ticker@ == t
    &&& l.date == txs[k].date && l.original_amount == txs[k].operation->Buy_amount
    &&& l.price == txs[k].operation->Buy_price && l.expenses == txs[k].operation->Buy_fees
    &&& l.cost_offset.v() == offset_at(offsets, k)
}
pub open spec fn inv_lots(m: Map<Seq<char>, matcher::AcquisitionLedger>, txs: Seq<GbpTransaction>, offsets: Seq<Decimal>) -> bool {
    forall|t: Seq<char>, j: int| #![trigger m[t]@[j]] m.contains_key(t) && 0 <= j < m[t]@.len() ==> lot_is_tx(m[t]@[j], t, txs, offsets)
}
/// C01.day_order / C02.pooling: shares bought before day d are all allocated (matched, reserved or pooled): only the
/// current day's purchases can be matched Same Day
pub open spec fn inv_done_before(m: Map<Seq<char>, matcher::AcquisitionLedger>, d: int) -> bool {
    forall|t: Seq<char>, j: int| #![trigger m[t]@[j]] m.contains_key(t) && 0 <= j < m[t]@.len() ==> m[t]@[j].date.d() <= d && (m[t]@[j].date.d() < d ==> lot_avail(m[t]@[j]) == 0real)
}
/// nothing bought today has been pooled yet (pooling happens after the day's sales)
pub open spec fn today_unpooled(s: Seq<AcquisitionLot>, d: int) -> bool {
    forall|j: int| 0 <= j < s.len() ==> ((#[trigger] s[j]).date.d() == d ==> s[j].in_pool.v() == 0real)
}
/// every BUY line of `ticker` dated d among txs[lo..hi) has its lot in the ledger (purchases are added before the day's sales)
pub open spec fn buys_added(s: Seq<AcquisitionLot>, txs: Seq<GbpTransaction>, lo: int, hi: int, ticker: Seq<char>) -> bool {
    forall|k: int| lo <= k < hi && (#[trigger] txs[k]).operation is Buy && txs[k].ticker@ == ticker ==> exists|j: int| 0 <= j < s.len() && #[trigger] s[j].transaction_idx == k
}


pub open spec fn lots_state(m: Map<Seq<char>, matcher::AcquisitionLedger>, cur: int) -> bool {
    forall|t: Seq<char>, j: int| #![trigger m[t]@[j]] m.contains_key(t) && 0 <= j < m[t]@.len() ==> m[t]@[j].date.d() <= cur && (m[t]@[j].date.d() < cur ==> lot_avail(m[t]@[j]) == 0real)
}
pub open spec fn lots_today_unpooled(m: Map<Seq<char>, matcher::AcquisitionLedger>, cur: int) -> bool {
    forall|t: Seq<char>| #[trigger] m.contains_key(t) ==> today_unpooled(m[t]@, cur)
}
pub open spec fn all_allocated(m: Map<Seq<char>, matcher::AcquisitionLedger>) -> bool {
    forall|t: Seq<char>, j: int| #![trigger m[t]@[j]] m.contains_key(t) && 0 <= j < m[t]@.len() ==> lot_avail(m[t]@[j]) == 0real
}
pub open spec fn lots_before(m: Map<Seq<char>, matcher::AcquisitionLedger>, d: int) -> bool {
    forall|t: Seq<char>, j: int| #![trigger m[t]@[j]] m.contains_key(t) && 0 <= j < m[t]@.len() ==> m[t]@[j].date.d() < d
}
pub open spec fn has_lot_idx(s: Seq<AcquisitionLot>, k: int) -> bool { exists|j: int| 0 <= j < s.len() && #[trigger] s[j].transaction_idx == k }
pub open spec fn buys_added_all(m: Map<Seq<char>, matcher::AcquisitionLedger>, txs: Seq<GbpTransaction>, lo: int, hi: int) -> bool {
    forall|k: int| lo <= k < hi && (#[trigger] txs[k]).operation is Buy ==> m.contains_key(txs[k].ticker@) && has_lot_idx(m[txs[k].ticker@]@, k)
}
pub open spec fn day_range(txs: Seq<GbpTransaction>, i: int, day_end: int, cur: int) -> bool {
    0 <= i < day_end <= txs.len() && forall|k: int| 0 <= k < txs.len() ==> ((#[trigger] txs[k]).date.d() == cur <==> i <= k < day_end)
}
/// every BUY of the sale's security on the sale's day already has its lot (C01.day_order)
pub open spec fn todays_buys_in_ledger(m: Map<Seq<char>, matcher::AcquisitionLedger>, txs: Seq<GbpTransaction>, tx: GbpTransaction) -> bool {
    forall|k: int| 0 <= k < txs.len() && (#[trigger] txs[k]).date.d() == tx.date.d() && txs[k].operation is Buy && txs[k].ticker@ == tx.ticker@
        ==> m.contains_key(tx.ticker@) && has_lot_idx(m[tx.ticker@]@, k)
}
/// pooled: for every BUY among txs[lo..hi) nothing of that security bought on day cur is still unallocated
pub open spec fn pooled_upto(m: Map<Seq<char>, matcher::AcquisitionLedger>, txs: Seq<GbpTransaction>, lo: int, hi: int, cur: int) -> bool {
    forall|k: int, j: int| #![trigger txs[k], m[txs[k].ticker@]@[j]] lo <= k < hi && txs[k].operation is Buy && m.contains_key(txs[k].ticker@) && 0 <= j < m[txs[k].ticker@]@.len()
        && m[txs[k].ticker@]@[j].date.d() == cur ==> lot_avail(m[txs[k].ticker@]@[j]) == 0real
}

// ---------- proceeds ----------
/// C04.pro_rata: the share of the day's sale attributed to a leg of q out of Q shares
pub open spec fn pro_rata_gross(q: real, price: real) -> real { q * price }
pub open spec fn pro_rata_fees(q: real, big_q: real, fees: real) -> real { fees * (q / big_q) }

} // verus!
