// ---- spec/sums.rs : real-valued sums over sequences and their lemmas (shared by all units) ----
verus! {

// ---------- generic real-valued sums over sequences ----------
pub open spec fn rsum<T>(s: Seq<T>, f: spec_fn(T) -> real) -> real
    decreases s.len()
{
    if s.len() == 0 { 0real } else { rsum(s.drop_last(), f) + f(s.last()) }
}

pub proof fn rsum_empty<T>(f: spec_fn(T) -> real)
    ensures rsum(Seq::<T>::empty(), f) == 0real
{}

pub proof fn rsum_push<T>(s: Seq<T>, x: T, f: spec_fn(T) -> real)
    ensures rsum(s.push(x), f) == rsum(s, f) + f(x)
{
    assert(s.push(x).drop_last() =~= s);
}

pub proof fn rsum_take_step<T>(s: Seq<T>, i: int, f: spec_fn(T) -> real)
    requires 0 <= i < s.len()
    ensures rsum(s.take(i + 1), f) == rsum(s.take(i), f) + f(s[i])
{
    assert(s.take(i + 1).drop_last() =~= s.take(i));
    assert(s.take(i + 1).last() == s[i]);
}

pub proof fn rsum_take_all<T>(s: Seq<T>, f: spec_fn(T) -> real)
    ensures rsum(s.take(s.len() as int), f) == rsum(s, f), rsum(s.take(0), f) == 0real
{
    assert(s.take(s.len() as int) =~= s);
    assert(s.take(0) =~= Seq::<T>::empty());
}

/// two sequences that agree pointwise under f have the same sum
pub proof fn rsum_ext<T>(a: Seq<T>, b: Seq<T>, f: spec_fn(T) -> real, g: spec_fn(T) -> real)
    requires a.len() == b.len(), forall|i: int| 0 <= i < a.len() ==> f(#[trigger] a[i]) == g(b[i])
    ensures rsum(a, f) == rsum(b, g)
    decreases a.len()
{
    if a.len() > 0 {
        rsum_ext(a.drop_last(), b.drop_last(), f, g);
    }
}

/// sum of (f + c*g) = sum f + c * sum g
pub proof fn rsum_linear<T>(s: Seq<T>, f: spec_fn(T) -> real, g: spec_fn(T) -> real, h: spec_fn(T) -> real, c: real)
    requires forall|i: int| 0 <= i < s.len() ==> h(#[trigger] s[i]) == f(s[i]) + c * g(s[i])
    ensures rsum(s, h) == rsum(s, f) + c * rsum(s, g)
    decreases s.len()
{
    if s.len() > 0 {
        rsum_linear(s.drop_last(), f, g, h, c);
        let a = rsum(s.drop_last(), g); let b = g(s.last());
        assert(c * (a + b) == c * a + c * b) by(nonlinear_arith);
    } else {
        assert(c * 0real == 0real) by(nonlinear_arith);
    }
}

pub proof fn rsum_nonneg<T>(s: Seq<T>, f: spec_fn(T) -> real)
    requires forall|i: int| 0 <= i < s.len() ==> f(#[trigger] s[i]) >= 0real
    ensures rsum(s, f) >= 0real
    decreases s.len()
{
    if s.len() > 0 { rsum_nonneg(s.drop_last(), f); }
}

/// a non-negative sum that is zero has only zero terms
pub proof fn rsum_zero_terms<T>(s: Seq<T>, f: spec_fn(T) -> real, k: int)
    requires forall|i: int| 0 <= i < s.len() ==> f(#[trigger] s[i]) >= 0real, rsum(s, f) <= 0real, 0 <= k < s.len()
    ensures f(s[k]) == 0real
{
    rsum_term_le(s, f, k);
}
/// one term of a non-negative sum is bounded by the sum
pub proof fn rsum_term_le<T>(s: Seq<T>, f: spec_fn(T) -> real, k: int)
    requires forall|i: int| 0 <= i < s.len() ==> f(#[trigger] s[i]) >= 0real, 0 <= k < s.len()
    ensures f(s[k]) <= rsum(s, f)
    decreases s.len()
{
    if k == s.len() - 1 { rsum_nonneg(s.drop_last(), f); }
    else { rsum_term_le(s.drop_last(), f, k); }
}


pub proof fn rsum_split<T>(s: Seq<T>, i: int, f: spec_fn(T) -> real)
    requires 0 <= i <= s.len()
    ensures rsum(s, f) == rsum(s.take(i), f) + rsum(s.skip(i), f)
    decreases s.len() - i
{
    if i == s.len() {
        assert(s.take(i) =~= s); assert(s.skip(i) =~= Seq::<T>::empty());
    } else {
        rsum_split(s, i + 1, f);
        rsum_take_step(s, i, f);
        rsum_skip_step(s, i, f);
    }
}
pub proof fn rsum_skip_step<T>(s: Seq<T>, i: int, f: spec_fn(T) -> real)
    requires 0 <= i < s.len()
    ensures rsum(s.skip(i), f) == f(s[i]) + rsum(s.skip(i + 1), f)
    decreases s.len() - i
{
    let a = s.skip(i);
    if i == s.len() - 1 {
        assert(a.drop_last() =~= Seq::<T>::empty());
        assert(s.skip(i + 1) =~= Seq::<T>::empty());
        assert(a.last() == s[i]);
    } else {
        // a = [s[i]] ++ s.skip(i+1); peel the last element of both
        let b = s.skip(i + 1);
        assert(a.drop_last() =~= s.drop_last().skip(i));
        assert(b.drop_last() =~= s.drop_last().skip(i + 1));
        assert(a.last() == s.last()); assert(b.last() == s.last());
        rsum_skip_step(s.drop_last(), i, f);
        assert(s.drop_last()[i] == s[i]);
    }
}
pub proof fn rsum_scale<T>(s: Seq<T>, f: spec_fn(T) -> real, g: spec_fn(T) -> real, c: real)
    requires forall|i: int| 0 <= i < s.len() ==> g(#[trigger] s[i]) == c * f(s[i])
    ensures rsum(s, g) == c * rsum(s, f)
    decreases s.len()
{
    if s.len() > 0 {
        rsum_scale(s.drop_last(), f, g, c);
        let a = rsum(s.drop_last(), f); let b = f(s.last());
        assert(c * (a + b) == c * a + c * b) by(nonlinear_arith);
    } else {
        assert(c * 0real == 0real) by(nonlinear_arith);
    }
}
pub proof fn rsum_add<T>(s: Seq<T>, f: spec_fn(T) -> real, g: spec_fn(T) -> real, h: spec_fn(T) -> real)
    requires forall|i: int| 0 <= i < s.len() ==> h(#[trigger] s[i]) == f(s[i]) + g(s[i])
    ensures rsum(s, h) == rsum(s, f) + rsum(s, g)
    decreases s.len()
{
    if s.len() > 0 { rsum_add(s.drop_last(), f, g, h); }
}
/// pointwise relation between two sequences: sum(b, g) = sum(a, f) + sum(a, delta)
pub proof fn rsum_ext_add<T>(a: Seq<T>, b: Seq<T>, f: spec_fn(T) -> real, g: spec_fn(T) -> real, dl: spec_fn(T) -> real)
    requires a.len() == b.len(), forall|i: int| 0 <= i < a.len() ==> g(b[i]) == f(#[trigger] a[i]) + dl(a[i])
    ensures rsum(b, g) == rsum(a, f) + rsum(a, dl)
    decreases a.len()
{
    if a.len() > 0 { rsum_ext_add(a.drop_last(), b.drop_last(), f, g, dl); }
}


pub proof fn rsum_concat<T>(a: Seq<T>, b: Seq<T>, f: spec_fn(T) -> real)
    ensures rsum(a + b, f) == rsum(a, f) + rsum(b, f)
    decreases b.len()
{
    if b.len() == 0 { assert(a + b =~= a); }
    else {
        assert((a + b).drop_last() =~= a + b.drop_last());
        assert((a + b).last() == b.last());
        rsum_concat(a, b.drop_last(), f);
    }
}
pub proof fn rsum_one<T>(x: T, f: spec_fn(T) -> real)
    ensures rsum(seq![x], f) == f(x)
{
    assert(seq![x].drop_last() =~= Seq::<T>::empty());
    assert(seq![x].last() == x);
    assert(rsum(seq![x].drop_last(), f) == 0real);
}
pub proof fn lemma_wavg_nonneg(a1: real, p1: real, a2: real, p2: real)
    requires a1 >= 0real, a2 >= 0real, p1 >= 0real, p2 >= 0real
    ensures a1 + a2 != 0real ==> (a1 * p1 + a2 * p2) / (a1 + a2) >= 0real, a1 + a2 >= 0real
{
    if a1 + a2 != 0real {
    assert(a1 * p1 >= 0real) by(nonlinear_arith) requires a1 >= 0real, p1 >= 0real;
    assert(a2 * p2 >= 0real) by(nonlinear_arith) requires a2 >= 0real, p2 >= 0real;
    let n = a1 * p1 + a2 * p2; let dd = a1 + a2;
    assert(n / dd >= 0real) by(nonlinear_arith) requires n >= 0real, dd > 0real;
    }
}
pub proof fn lemma_share_bounds(a: real, q: real, t: real)
    requires a >= 0real, 0real < q <= t
    ensures 0real <= a * (q / t) <= a
{
    assert(0real < q / t <= 1real) by(nonlinear_arith) requires 0real < q <= t;
    let r = q / t;
    assert(0real <= a * r <= a) by(nonlinear_arith) requires a >= 0real, 0real < r <= 1real;
}



// ---------- sums over index ranges ----------
pub open spec fn isum(n: int, f: spec_fn(int) -> real) -> real
    decreases n
{
    if n <= 0 { 0real } else { isum(n - 1, f) + f(n - 1) }
}
pub proof fn isum_ext(n: int, f: spec_fn(int) -> real, g: spec_fn(int) -> real)
    requires forall|k: int| 0 <= k < n ==> #[trigger] f(k) == g(k)
    ensures isum(n, f) == isum(n, g)
    decreases n
{
    if n > 0 { isum_ext(n - 1, f, g); }
}
/// changing one term changes the sum by the difference
pub proof fn isum_update(n: int, f: spec_fn(int) -> real, g: spec_fn(int) -> real, j: int, dl: real)
    requires 0 <= j < n, g(j) == f(j) + dl, forall|k: int| 0 <= k < n && k != j ==> #[trigger] f(k) == g(k)
    ensures isum(n, g) == isum(n, f) + dl
    decreases n
{
    if n - 1 == j { isum_ext(n - 1, f, g); } else { isum_update(n - 1, f, g, j, dl); }
}
pub proof fn isum_zero(n: int, f: spec_fn(int) -> real)
    requires forall|k: int| 0 <= k < n ==> #[trigger] f(k) == 0real
    ensures isum(n, f) == 0real
    decreases n
{
    if n > 0 { isum_zero(n - 1, f); }
}
pub proof fn rsum_zero<T>(s: Seq<T>, f: spec_fn(T) -> real)
    requires forall|i: int| 0 <= i < s.len() ==> f(#[trigger] s[i]) == 0real
    ensures rsum(s, f) == 0real
    decreases s.len()
{
    if s.len() > 0 { rsum_zero(s.drop_last(), f); }
}

// ---------- counting ----------
pub open spec fn cnt<T>(s: Seq<T>, p: spec_fn(T) -> bool) -> nat
    decreases s.len()
{
    if s.len() == 0 { 0 } else { cnt(s.drop_last(), p) + (if p(s.last()) { 1nat } else { 0nat }) }
}
pub proof fn cnt_push<T>(s: Seq<T>, x: T, p: spec_fn(T) -> bool)
    ensures cnt(s.push(x), p) == cnt(s, p) + (if p(x) { 1nat } else { 0nat })
{
    assert(s.push(x).drop_last() =~= s);
}
pub proof fn cnt_le_len<T>(s: Seq<T>, p: spec_fn(T) -> bool)
    ensures cnt(s, p) <= s.len()
    decreases s.len()
{
    if s.len() > 0 { cnt_le_len(s.drop_last(), p); }
}
pub proof fn cnt_sum3<T>(s: Seq<T>, p: spec_fn(T) -> bool, q: spec_fn(T) -> bool, r: spec_fn(T) -> bool)
    requires forall|x: T| #![trigger p(x)] !(p(x) && q(x)) && !(p(x) && r(x)) && !(q(x) && r(x))
    ensures cnt(s, p) + cnt(s, q) + cnt(s, r) <= s.len()
    decreases s.len()
{
    if s.len() > 0 { cnt_sum3(s.drop_last(), p, q, r); let x = s.last(); let _ = p(x); assert(!(p(x) && q(x)) && !(p(x) && r(x)) && !(q(x) && r(x))); }
}
pub proof fn cnt_remove<T>(s: Seq<T>, i: int, p: spec_fn(T) -> bool)
    requires 0 <= i < s.len()
    ensures cnt(s.remove(i), p) + (if p(s[i]) { 1nat } else { 0nat }) == cnt(s, p)
    decreases s.len()
{
    if i == s.len() - 1 {
        assert(s.remove(i) =~= s.drop_last());
    } else {
        assert(s.remove(i).drop_last() =~= s.drop_last().remove(i));
        assert(s.remove(i).last() == s.last());
        cnt_remove(s.drop_last(), i, p);
        assert(s.drop_last()[i] == s[i]);
    }
}

pub proof fn rsum_remove<T>(s: Seq<T>, j: int, f: spec_fn(T) -> real)
    requires 0 <= j < s.len()
    ensures rsum(s, f) == rsum(s.remove(j), f) + f(s[j])
    decreases s.len()
{
    if j == s.len() - 1 { assert(s.remove(j) =~= s.drop_last()); }
    else {
        rsum_remove(s.drop_last(), j, f);
        assert(s.remove(j).drop_last() =~= s.drop_last().remove(j));
        assert(s.remove(j).last() == s.last());
    }
}
/// a sum does not depend on the order of the terms (sequences with the same multiset of elements)
pub proof fn rsum_multiset<T>(a: Seq<T>, b: Seq<T>, f: spec_fn(T) -> real)
    requires a.to_multiset() == b.to_multiset()
    ensures rsum(a, f) == rsum(b, f)
    decreases a.len()
{
    a.to_multiset_ensures(); b.to_multiset_ensures();
    if a.len() == 0 {
        assert(b.len() == 0);
    } else {
        let x = a.last(); let a1 = a.drop_last();
        a1.to_multiset_ensures();
        assert(a =~= a1.push(x));
        assert(a.to_multiset() =~= a1.to_multiset().insert(x));
        assert(b.to_multiset().count(x) > 0);
        assert(b.contains(x));
        let j = choose|j: int| 0 <= j < b.len() && b[j] == x;
        let b1 = b.remove(j);
        assert(b1.to_multiset() =~= b.to_multiset().remove(x));
        assert(a1.to_multiset() =~= b1.to_multiset());
        rsum_multiset(a1, b1, f);
        rsum_remove(b, j, f);
    }
}


pub proof fn isum_scale(n: int, f: spec_fn(int) -> real, g: spec_fn(int) -> real, c: real)
    requires forall|k: int| 0 <= k < n ==> #[trigger] g(k) == c * f(k)
    ensures isum(n, g) == c * isum(n, f)
    decreases n
{
    if n > 0 {
        isum_scale(n - 1, f, g, c);
        let a = isum(n - 1, f); let b = f(n - 1);
        assert(c * (a + b) == c * a + c * b) by(nonlinear_arith);
    } else {
        assert(c * 0real == 0real) by(nonlinear_arith);
    }
}
pub proof fn isum_nonneg(n: int, f: spec_fn(int) -> real)
    requires forall|k: int| 0 <= k < n ==> #[trigger] f(k) >= 0real
    ensures isum(n, f) >= 0real
    decreases n
{
    if n > 0 { isum_nonneg(n - 1, f); }
}


pub proof fn isum_mono(a: int, b: int, f: spec_fn(int) -> real)
    requires a <= b, forall|k: int| a <= k < b ==> #[trigger] f(k) >= 0real
    ensures isum(a, f) <= isum(b, f)
    decreases b - a
{
    if a < b { isum_mono(a, b - 1, f); if b <= 0 { } }
}


/// a sum whose terms vanish outside lo..hi is the difference of the two partial sums of the in-range terms
pub proof fn isum_range_only(n: int, lo: int, hi: int, g: spec_fn(int) -> real, f: spec_fn(int) -> real)
    requires 0 <= lo <= hi <= n, forall|k: int| 0 <= k < n ==> #[trigger] g(k) == (if lo <= k < hi { f(k) } else { 0real })
    ensures isum(n, g) == isum(hi, f) - isum(lo, f)
    decreases n
{
    if n > hi { isum_range_only(n - 1, lo, hi, g, f); }
    else if n > lo { // n == hi > lo
        isum_range_only(n - 1, lo, n - 1, g, f);
    } else { // n == hi == lo
        isum_zero(n, g);
    }
}
pub proof fn isum_le(n: int, f: spec_fn(int) -> real, g: spec_fn(int) -> real)
    requires forall|k: int| 0 <= k < n ==> #[trigger] f(k) <= g(k)
    ensures isum(n, f) <= isum(n, g)
    decreases n
{
    if n > 0 { isum_le(n - 1, f, g); }
}

} // verus!
