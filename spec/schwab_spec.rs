// ---- spec/schwab_spec.rs : the C18 predicates live in contracts/schwab.vc (raw schwab) because the converter's types are crate-private ----
verus! {
} // verus!
