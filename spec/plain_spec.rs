// ---- spec/plain_spec.rs : what the plain-text report shows (C16, C17), over the record view of shim/fmt.rs ----
verus! {
use crate::models::*;
use crate::cgt_format::*;

pub open spec fn f_gain() -> spec_fn(Match) -> real { |m: Match| m.gain_or_loss.v() }
pub open spec fn f_cost() -> spec_fn(Match) -> real { |m: Match| m.allowable_cost.v() }
pub open spec fn f_gross() -> spec_fn(Disposal) -> real { |d: Disposal| d.gross_proceeds.v() }
/// net result of a disposal: the sum of its legs' gains
pub open spec fn disposal_net(d: Disposal) -> real { rsum(d.matches@, f_gain()) }

/// the record the report shows for one leg of a disposal (exact quantity; acquisition date for a 30-day leg; unit cost rounded to pence
/// with midpoints away from zero for a Section 104 leg)
pub open spec fn leg_rec_ok(rec: Rec, m: Match) -> bool {
    match m.rule {
        MatchRule::SameDay => rec =~= seq![trim_str(m.quantity.v())],
        MatchRule::BedAndBreakfast => m.acquisition_date is Some && rec =~= seq![trim_str(m.quantity.v()), date_str(m.acquisition_date->Some_0.d())],
        MatchRule::Section104 => exists|x: real| #[trigger] is_round_half_away(x, leg_unit_cost(m), 2)
            && rec =~= seq![trim_str(m.quantity.v()), trim_str(x)],
    }
}
pub open spec fn leg_unit_cost(m: Match) -> real { if m.quantity.v() != 0real { m.allowable_cost.v() / m.quantity.v() } else { 0real } }
/// legs shown: every leg except a 30-day leg without an acquisition date (which the matcher never produces)
pub open spec fn leg_shown(m: Match) -> bool { !(m.rule == MatchRule::BedAndBreakfast && m.acquisition_date is None) }
pub open spec fn p_shown() -> spec_fn(Match) -> bool { |m: Match| leg_shown(m) }
pub open spec fn legs_shown(ms: Seq<Match>) -> Seq<Match> { ms.filter(p_shown()) }

pub open spec fn abs_r(x: real) -> real { if x >= 0real { x } else { -x } }
pub open spec fn disposal_cost(d: Disposal) -> real { rsum(d.matches@, f_cost()) }
/// header record of a disposal: index, exact quantity, ticker, date, GAIN/LOSS, magnitude of the net result
pub open spec fn disposal_head(index: usize, d: Disposal) -> Rec {
    seq![int_str(index as int), trim_str(d.quantity.v()), d.ticker@, date_str(d.date.d()),
         (if disposal_net(d) >= 0real { "GAIN"@ } else { "LOSS"@ }), gbp_str(abs_r(disposal_net(d)))]
}
pub open spec fn disposal_gross_rec(d: Disposal) -> Rec {
    seq![trim_str(d.quantity.v()), trim_str(if d.quantity.v() != 0real { d.gross_proceeds.v() / d.quantity.v() } else { 0real }), gbp_str(d.gross_proceeds.v())]
}
pub open spec fn disposal_net_rec(d: Disposal) -> Rec {
    seq![gbp_str(d.gross_proceeds.v()), gbp_str(d.gross_proceeds.v() - d.proceeds.v()), gbp_str(d.proceeds.v())]
}
/// the tail of a disposal block: gross proceeds line, net proceeds line when there are sale fees, cost, result
pub open spec fn disposal_tail(d: Disposal) -> Seq<Rec> {
    seq![disposal_gross_rec(d)]
      + (if d.gross_proceeds.v() - d.proceeds.v() > 0real { seq![disposal_net_rec(d)] } else { Seq::<Rec>::empty() })
      + seq![seq![gbp_str(disposal_cost(d))], seq![gbp_str(disposal_net(d))]]
}
/// one record per shown leg, in leg order
pub open spec fn legs_block_ok(lb: Seq<Rec>, legs: Seq<Match>) -> bool {
    lb.len() == legs.len() && forall|j: int| 0 <= j < lb.len() ==> leg_rec_ok(#[trigger] lb[j], legs[j])
}
/// the block of a disposal: head, one record per shown leg (in leg order), tail
pub open spec fn disposal_block_ok(block: Seq<Rec>, index: usize, d: Disposal) -> bool {
    exists|lb: Seq<Rec>| block == seq![disposal_head(index, d)] + lb + disposal_tail(d) && #[trigger] legs_block_ok(lb, legs_shown(d.matches@))
}
pub proof fn lemma_legs_push(lb: Seq<Rec>, legs: Seq<Match>, rec: Rec, m: Match)
    requires legs_block_ok(lb, legs), leg_rec_ok(rec, m)
    ensures legs_block_ok(lb.push(rec), legs.push(m))
{
    assert forall|j: int| 0 <= j < lb.push(rec).len() implies leg_rec_ok(#[trigger] lb.push(rec)[j], legs.push(m)[j]) by {
        if j < lb.len() { assert(lb.push(rec)[j] == lb[j]); assert(legs.push(m)[j] == legs[j]); }
    }
}
pub proof fn lemma_filter_take_step<T>(s: Seq<T>, i: int, p: spec_fn(T) -> bool)
    requires 0 <= i < s.len()
    ensures s.take(i + 1).filter(p) == (if p(s[i]) { s.take(i).filter(p).push(s[i]) } else { s.take(i).filter(p) })
{
    assert(s.take(i + 1) == s.take(i).push(s[i]));
    assert(s.take(i + 1).drop_last() == s.take(i));
    reveal_with_fuel(Seq::filter, 2);
}
} // verus!
