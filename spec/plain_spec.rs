// ---- spec/plain_spec.rs : what the plain-text report shows (C16, C17), over the record view of shim/fmt.rs ----
verus! {
use crate::models::*;
use crate::cgt_format::*;

pub open spec fn f_gain() -> spec_fn(Match) -> real { |m: Match| m.gain_or_loss.v() }
pub open spec fn f_cost() -> spec_fn(Match) -> real { |m: Match| m.allowable_cost.v() }
pub open spec fn f_gross() -> spec_fn(Disposal) -> real { |d: Disposal| d.gross_proceeds.v() }
/// net result of a disposal: the sum of its legs' gains
pub open spec fn disposal_net(d: Disposal) -> real { rsum(d.matches@, f_gain()) }

/// the record the report shows for one leg of a disposal (exact quantity; acquisition date for a 30-day leg; unit cost rounded to pence
/// with midpoints away from zero for a Section 104 leg)
pub open spec fn leg_rec_ok(rec: Rec, m: Match) -> bool {
    match m.rule {
        MatchRule::SameDay => rec =~= seq![trim_str(m.quantity.v())],
        MatchRule::BedAndBreakfast => m.acquisition_date is Some && rec =~= seq![trim_str(m.quantity.v()), date_str(m.acquisition_date->Some_0.d())],
        MatchRule::Section104 => exists|x: real| #[trigger] is_round_half_away(x, leg_unit_cost(m), 2)
            && rec =~= seq![trim_str(m.quantity.v()), trim_str(x)],
    }
}
pub open spec fn leg_unit_cost(m: Match) -> real { if m.quantity.v() != 0real { m.allowable_cost.v() / m.quantity.v() } else { 0real } }
/// legs shown: every leg except a 30-day leg without an acquisition date (which the matcher never produces)
pub open spec fn leg_shown(m: Match) -> bool { !(m.rule == MatchRule::BedAndBreakfast && m.acquisition_date is None) }
pub open spec fn p_shown() -> spec_fn(Match) -> bool { |m: Match| leg_shown(m) }
pub open spec fn legs_shown(ms: Seq<Match>) -> Seq<Match> { ms.filter(p_shown()) }

pub open spec fn abs_r(x: real) -> real { if x >= 0real { x } else { -x } }
pub open spec fn disposal_cost(d: Disposal) -> real { rsum(d.matches@, f_cost()) }
/// header record of a disposal: index, exact quantity, ticker, date, GAIN/LOSS, magnitude of the net result
pub open spec fn disposal_head(index: usize, d: Disposal) -> Rec {
    seq![int_str(index as int), trim_str(d.quantity.v()), d.ticker@, date_str(d.date.d()),
         (if disposal_net(d) >= 0real { "GAIN"@ } else { "LOSS"@ }), gbp_str(abs_r(disposal_net(d)))]
}
pub open spec fn disposal_gross_rec(d: Disposal) -> Rec {
    seq![trim_str(d.quantity.v()), trim_str(if d.quantity.v() != 0real { d.gross_proceeds.v() / d.quantity.v() } else { 0real }), gbp_str(d.gross_proceeds.v())]
}
pub open spec fn disposal_net_rec(d: Disposal) -> Rec {
    seq![gbp_str(d.gross_proceeds.v()), gbp_str(d.gross_proceeds.v() - d.proceeds.v()), gbp_str(d.proceeds.v())]
}
/// the tail of a disposal block: gross proceeds line, net proceeds line when there are sale fees, cost, result
pub open spec fn disposal_tail(d: Disposal) -> Seq<Rec> {
    seq![disposal_gross_rec(d)]
      + (if d.gross_proceeds.v() - d.proceeds.v() > 0real { seq![disposal_net_rec(d)] } else { Seq::<Rec>::empty() })
      + seq![seq![gbp_str(disposal_cost(d))], seq![gbp_str(disposal_net(d))]]
}
/// one record per shown leg, in leg order
pub open spec fn legs_block_ok(lb: Seq<Rec>, legs: Seq<Match>) -> bool {
    lb.len() == legs.len() && forall|j: int| 0 <= j < lb.len() ==> leg_rec_ok(#[trigger] lb[j], legs[j])
}
/// the block of a disposal: head, one record per shown leg (in leg order), tail
pub open spec fn disposal_block_ok(block: Seq<Rec>, index: usize, d: Disposal) -> bool {
    exists|lb: Seq<Rec>| block == seq![disposal_head(index, d)] + lb + disposal_tail(d) && #[trigger] legs_block_ok(lb, legs_shown(d.matches@))
}
pub proof fn lemma_legs_push(lb: Seq<Rec>, legs: Seq<Match>, rec: Rec, m: Match)
    requires legs_block_ok(lb, legs), leg_rec_ok(rec, m)
    ensures legs_block_ok(lb.push(rec), legs.push(m))
{
    assert forall|j: int| 0 <= j < lb.push(rec).len() implies leg_rec_ok(#[trigger] lb.push(rec)[j], legs.push(m)[j]) by {
        if j < lb.len() { assert(lb.push(rec)[j] == lb[j]); assert(legs.push(m)[j] == legs[j]); }
    }
}
pub proof fn lemma_filter_take_step<T>(s: Seq<T>, i: int, p: spec_fn(T) -> bool)
    requires 0 <= i < s.len()
    ensures s.take(i + 1).filter(p) == (if p(s[i]) { s.take(i).filter(p).push(s[i]) } else { s.take(i).filter(p) })
{
    assert(s.take(i + 1) == s.take(i).push(s[i]));
    assert(s.take(i + 1).drop_last() == s.take(i));
    reveal_with_fuel(Seq::filter, 2);
}
} // verus!
verus! {
use crate::models::*;
use crate::cgt_format::*;
use crate::cgt_money::CurrencyAmount;

pub open spec fn is_prefix<T>(a: Seq<T>, b: Seq<T>) -> bool { a.len() <= b.len() && b.take(a.len() as int) == a }
pub proof fn lemma_prefix_refl<T>(a: Seq<T>) ensures is_prefix(a, a) { assert(a.take(a.len() as int) =~= a); }
pub proof fn lemma_prefix_push<T>(a: Seq<T>, x: T) ensures is_prefix(a, a.push(x)) { assert(a.push(x).take(a.len() as int) =~= a); }
pub proof fn lemma_prefix_trans<T>(a: Seq<T>, b: Seq<T>, c: Seq<T>)
    requires is_prefix(a, b), is_prefix(b, c) ensures is_prefix(a, c)
{ assert(c.take(a.len() as int) =~= c.take(b.len() as int).take(a.len() as int)); }
pub proof fn lemma_prefix_split<T>(a: Seq<T>, b: Seq<T>) requires is_prefix(a, b) ensures b == a + b.skip(a.len() as int)
{ assert(b =~= a + b.skip(a.len() as int)); }

pub open spec fn sect(rs: Seq<Rec>, pre: Seq<Rec>, blk: Seq<Rec>, post: Seq<Rec>) -> bool { rs == pre + blk + post }
// ---- HOLDINGS section: holdings with a positive quantity, by ticker, each with its exact quantity and its average cost rounded to pence
pub open spec fn active_refs<'a>(s: Seq<Section104Holding>) -> Seq<&'a Section104Holding> decreases s.len() {
    if s.len() == 0 { Seq::empty() } else if s.last().quantity.v() > 0real { active_refs(s.drop_last()).push(&s.last()) } else { active_refs(s.drop_last()) }
}
pub open spec fn hold_rec_ok(rec: Rec, h: &Section104Holding) -> bool {
    exists|x: real| #[trigger] is_round_half_away(x, h.total_cost.v() / h.quantity.v(), 2) && rec =~= seq![h.ticker@, trim_str(h.quantity.v()), trim_str(x)]
}
pub open spec fn hold_block_ok(blk: Seq<Rec>, hs: Seq<&Section104Holding>) -> bool {
    blk.len() == hs.len() && forall|j: int| 0 <= j < blk.len() ==> hold_rec_ok(#[trigger] blk[j], hs[j])
}
pub proof fn lemma_hold_push(blk: Seq<Rec>, hs: Seq<&Section104Holding>, rec: Rec, h: &Section104Holding)
    requires hold_block_ok(blk, hs), hold_rec_ok(rec, h) ensures hold_block_ok(blk.push(rec), hs.push(h))
{
    assert forall|j: int| 0 <= j < blk.push(rec).len() implies hold_rec_ok(#[trigger] blk.push(rec)[j], hs.push(h)[j]) by {
        if j < blk.len() { assert(blk.push(rec)[j] == blk[j]); assert(hs.push(h)[j] == hs[j]); }
    }
}
/// somewhere in the report: one record per holding with a positive quantity, in ticker order
pub open spec fn plain_holdings_ok(rs: Seq<Rec>, report: TaxReport) -> bool {
    exists|pre: Seq<Rec>, blk: Seq<Rec>, post: Seq<Rec>, hs: Seq<&Section104Holding>|
        #![trigger sect(rs, pre, blk, post), hold_block_ok(blk, hs)] sect(rs, pre, blk, post) && hold_block_ok(blk, hs) && sorted_ticker(hs) && perm_facts(active_refs(report.holdings@), hs) && hs.len() > 0
}

// ---- TRANSACTIONS section: every BUY/SELL line, by date then ticker, with its date, exact quantity, ticker, price and fees
pub open spec fn is_trade(t: Transaction) -> bool { t.operation is Buy || t.operation is Sell }
pub open spec fn trade_refs<'a>(s: Seq<Transaction>) -> Seq<&'a Transaction> decreases s.len() {
    if s.len() == 0 { Seq::empty() } else if is_trade(s.last()) { trade_refs(s.drop_last()).push(&s.last()) } else { trade_refs(s.drop_last()) }
}
pub proof fn lemma_trade_refs_are_trades(s: Seq<Transaction>)
    ensures forall|k: int| 0 <= k < trade_refs(s).len() ==> is_trade(*#[trigger] trade_refs(s)[k])
    decreases s.len()
{
    if s.len() > 0 {
        lemma_trade_refs_are_trades(s.drop_last());
        let r = trade_refs(s.drop_last());
        if is_trade(s.last()) {
            assert(trade_refs(s) == r.push(&s.last()));
            assert forall|k: int| 0 <= k < trade_refs(s).len() implies is_trade(*#[trigger] trade_refs(s)[k]) by { if k < r.len() { assert(trade_refs(s)[k] == r[k]); } }
        } else { assert(trade_refs(s) == r); }
    }
}
pub open spec fn txn_rec(t: &Transaction) -> Rec {
    match t.operation {
        Operation::Buy { amount, price, fees } => seq![date_str(t.date.d()), trim_str(amount.v()), t.ticker@, price_str(price), price_str(fees)],
        Operation::Sell { amount, price, fees } => seq![date_str(t.date.d()), trim_str(amount.v()), t.ticker@, price_str(price), price_str(fees)],
        _ => Seq::empty(),
    }
}
pub open spec fn txn_block_ok(blk: Seq<Rec>, ts: Seq<&Transaction>) -> bool {
    blk.len() == ts.len() && forall|j: int| 0 <= j < blk.len() ==> #[trigger] blk[j] =~= txn_rec(ts[j])
}
pub proof fn lemma_txn_push(blk: Seq<Rec>, ts: Seq<&Transaction>, rec: Rec, t: &Transaction)
    requires txn_block_ok(blk, ts), rec =~= txn_rec(t) ensures txn_block_ok(blk.push(rec), ts.push(t))
{
    assert forall|j: int| 0 <= j < blk.push(rec).len() implies #[trigger] blk.push(rec)[j] =~= txn_rec(ts.push(t)[j]) by {
        if j < blk.len() { assert(blk.push(rec)[j] == blk[j]); assert(ts.push(t)[j] == ts[j]); }
    }
}
pub open spec fn plain_txns_ok(rs: Seq<Rec>, report: TaxReport) -> bool {
    exists|pre: Seq<Rec>, blk: Seq<Rec>, post: Seq<Rec>, ts: Seq<&Transaction>|
        #![trigger sect(rs, pre, blk, post), txn_block_ok(blk, ts)] sect(rs, pre, blk, post) && txn_block_ok(blk, ts) && sorted_date_ticker(ts) && perm_facts(trade_refs(report.transactions@), ts)
}
pub proof fn lemma_take_step_refs_h(s: Seq<Section104Holding>, i: int)
    requires 0 <= i < s.len()
    ensures active_refs(s.take(i + 1)) == (if s[i].quantity.v() > 0real { active_refs(s.take(i)).push(&s[i]) } else { active_refs(s.take(i)) })
{ assert(s.take(i + 1).drop_last() =~= s.take(i)); }
pub proof fn lemma_take_step_refs_t(s: Seq<Transaction>, i: int)
    requires 0 <= i < s.len()
    ensures trade_refs(s.take(i + 1)) == (if is_trade(s[i]) { trade_refs(s.take(i)).push(&s[i]) } else { trade_refs(s.take(i)) })
{ assert(s.take(i + 1).drop_last() =~= s.take(i)); }
} // verus!
verus! {
use crate::models::*;
use crate::cgt_format::*;
// ---- SUMMARY rows: one row per tax year showing the year, the number of disposals, net gain, total gain, total loss, gross proceeds,
//      exemption and taxable gain = max(0, net gain - exemption), each as a pound figure of the computed value
pub open spec fn taxable_of(y: TaxYearSummary) -> real { if y.net_gain.v() - y.exempt_amount.v() >= 0real { y.net_gain.v() - y.exempt_amount.v() } else { 0real } }
pub open spec fn year_row(y: TaxYearSummary) -> Rec {
    seq![trim_end_of(render(seq![
        FmtPiece::SpecArg(tax_year_str(y.period.0 as int)), FmtPiece::SpecArg(int_str(y.disposals@.len() as int)),
        FmtPiece::SpecArg(gbp_str(y.net_gain.v())), FmtPiece::SpecArg(gbp_str(y.total_gain.v())), FmtPiece::SpecArg(gbp_str(y.total_loss.v())),
        FmtPiece::SpecArg(gbp_str(rsum(y.disposals@, f_gross()))), FmtPiece::SpecArg(gbp_str(y.exempt_amount.v())), FmtPiece::SpecArg(gbp_str(taxable_of(y)))]))]
}
pub proof fn lemma_contains_prefix<T>(a: Seq<T>, b: Seq<T>, x: T)
    requires is_prefix(a, b), a.contains(x) ensures b.contains(x)
{ let k = choose|k: int| 0 <= k < a.len() && a[k] == x; assert(b.take(a.len() as int)[k] == b[k]); }
pub proof fn lemma_prefix_add<T>(a: Seq<T>, b: Seq<T>) ensures is_prefix(a, a + b) { assert((a + b).take(a.len() as int) =~= a); }
} // verus!
verus! {
use crate::models::*;
use crate::cgt_format::*;
// ---- ASSET EVENTS section: every dividend, accumulation, capital return, split and unsplit line, by date then ticker, with its figures
pub open spec fn is_event(t: Transaction) -> bool {
    t.operation is Dividend || t.operation is Accumulation || t.operation is CapReturn || t.operation is Split || t.operation is Unsplit
}
pub open spec fn event_refs<'a>(s: Seq<Transaction>) -> Seq<&'a Transaction> decreases s.len() {
    if s.len() == 0 { Seq::empty() } else if is_event(s.last()) { event_refs(s.drop_last()).push(&s.last()) } else { event_refs(s.drop_last()) }
}
pub proof fn lemma_take_step_refs_e(s: Seq<Transaction>, i: int)
    requires 0 <= i < s.len()
    ensures event_refs(s.take(i + 1)) == (if is_event(s[i]) { event_refs(s.take(i)).push(&s[i]) } else { event_refs(s.take(i)) })
{ assert(s.take(i + 1).drop_last() =~= s.take(i)); }
pub proof fn lemma_event_refs_are_events(s: Seq<Transaction>)
    ensures forall|k: int| 0 <= k < event_refs(s).len() ==> is_event(*#[trigger] event_refs(s)[k])
    decreases s.len()
{
    if s.len() > 0 {
        lemma_event_refs_are_events(s.drop_last());
        let r = event_refs(s.drop_last());
        if is_event(s.last()) {
            assert(event_refs(s) == r.push(&s.last()));
            assert forall|k: int| 0 <= k < event_refs(s).len() implies is_event(*#[trigger] event_refs(s)[k]) by { if k < r.len() { assert(event_refs(s)[k] == r[k]); } }
        } else { assert(event_refs(s) == r); }
    }
}
pub open spec fn event_rec(t: &Transaction) -> Rec {
    match t.operation {
        Operation::Dividend { total_value, tax_paid } => seq![date_str(t.date.d()), t.ticker@, cur_amount_str(total_value)],
        Operation::Accumulation { amount, total_value, tax_paid } => seq![date_str(t.date.d()), t.ticker@, trim_str(amount.v()), cur_amount_str(total_value)],
        Operation::CapReturn { amount, total_value, fees } => seq![date_str(t.date.d()), t.ticker@, trim_str(amount.v()), cur_amount_str(total_value)],
        Operation::Split { ratio } => seq![date_str(t.date.d()), t.ticker@, trim_str(ratio.v())],
        Operation::Unsplit { ratio } => seq![date_str(t.date.d()), t.ticker@, trim_str(ratio.v())],
        _ => Seq::empty(),
    }
}
pub open spec fn ev_block_ok(blk: Seq<Rec>, ts: Seq<&Transaction>) -> bool {
    blk.len() == ts.len() && forall|j: int| 0 <= j < blk.len() ==> #[trigger] blk[j] =~= event_rec(ts[j])
}
pub proof fn lemma_ev_push(blk: Seq<Rec>, ts: Seq<&Transaction>, rec: Rec, t: &Transaction)
    requires ev_block_ok(blk, ts), rec =~= event_rec(t) ensures ev_block_ok(blk.push(rec), ts.push(t))
{
    assert forall|j: int| 0 <= j < blk.push(rec).len() implies #[trigger] blk.push(rec)[j] =~= event_rec(ts.push(t)[j]) by {
        if j < blk.len() { assert(blk.push(rec)[j] == blk[j]); assert(ts.push(t)[j] == ts[j]); }
    }
}
pub open spec fn plain_events_ok(rs: Seq<Rec>, report: TaxReport) -> bool {
    exists|pre: Seq<Rec>, blk: Seq<Rec>, post: Seq<Rec>, ts: Seq<&Transaction>|
        #![trigger sect(rs, pre, blk, post), ev_block_ok(blk, ts)] sect(rs, pre, blk, post) && ev_block_ok(blk, ts) && sorted_date_ticker(ts) && perm_facts(event_refs(report.transactions@), ts)
}
} // verus!
