// ---- spec/validate_spec.rs : C15.validator, from the property text ----
verus! {
use crate::models::*;
/// "some quantity is zero or negative, some price, fee or total value is negative, or a split ratio is not positive"
pub open spec fn tx_bad(tx: Transaction) -> bool {
    match tx.operation {
        Operation::Buy { amount, price, fees } => amount.v() <= 0real || price.amount.v() < 0real || fees.amount.v() < 0real,
        Operation::Sell { amount, price, fees } => amount.v() <= 0real || price.amount.v() < 0real || fees.amount.v() < 0real,
        Operation::CapReturn { amount, total_value, fees } => amount.v() <= 0real || total_value.amount.v() < 0real || fees.amount.v() < 0real,
        Operation::Accumulation { amount, total_value, tax_paid } => amount.v() <= 0real || total_value.amount.v() < 0real,
        Operation::Dividend { total_value, tax_paid } => total_value.amount.v() < 0real,
        Operation::Split { ratio } => ratio.v() <= 0real,
        Operation::Unsplit { ratio } => ratio.v() <= 0real,
    }
}
pub open spec fn any_bad(s: Seq<Transaction>) -> bool { exists|j: int| 0 <= j < s.len() && tx_bad(#[trigger] s[j]) }
pub proof fn lemma_any_bad_step(s: Seq<Transaction>, i: int)
    requires 0 <= i < s.len()
    ensures any_bad(s.take(i + 1)) == (any_bad(s.take(i)) || tx_bad(s[i]))
{
    let a = s.take(i); let b = s.take(i + 1);
    if any_bad(a) { let j = choose|j: int| 0 <= j < a.len() && tx_bad(#[trigger] a[j]); assert(b[j] == a[j]); }
    if tx_bad(s[i]) { assert(b[i] == s[i]); }
    if any_bad(b) {
        let j = choose|j: int| 0 <= j < b.len() && tx_bad(#[trigger] b[j]);
        if j < i { assert(a[j] == b[j]); } else { assert(b[j] == s[i]); }
    }
}
} // verus!
