// ---- spec/calc_spec.rs : report arithmetic (C04), taken from the property text ----
verus! {
use crate::models::*;
use crate::matcher::MatchResult;

pub open spec fn f_gain() -> spec_fn(Match) -> real { |m: Match| m.gain_or_loss.v() }
pub open spec fn f_cost() -> spec_fn(Match) -> real { |m: Match| m.allowable_cost.v() }
pub open spec fn f_qty() -> spec_fn(Match) -> real { |m: Match| m.quantity.v() }
/// a disposal's net result: the sum of its legs' gains
pub open spec fn disposal_net(d: Disposal) -> real { rsum(d.matches@, f_gain()) }
/// C04.totals: gains and losses are netted per disposal, not per leg
pub open spec fn f_pos_net() -> spec_fn(Disposal) -> real { |d: Disposal| if disposal_net(d) > 0real { disposal_net(d) } else { 0real } }
pub open spec fn f_neg_net() -> spec_fn(Disposal) -> real { |d: Disposal| if disposal_net(d) < 0real { -disposal_net(d) } else { 0real } }
pub open spec fn f_gross() -> spec_fn(Disposal) -> real { |d: Disposal| d.gross_proceeds.v() }

pub open spec fn f_mr_qty() -> spec_fn(MatchResult) -> real { |m: MatchResult| m.match_detail.quantity.v() }
pub open spec fn f_mr_gross() -> spec_fn(MatchResult) -> real { |m: MatchResult| m.gross_proceeds.v() }
pub open spec fn f_mr_net() -> spec_fn(MatchResult) -> real { |m: MatchResult| m.proceeds.v() }

/// the legs of one (date, security), in input order
pub open spec fn same_key(m: MatchResult, d: int, t: Seq<char>) -> bool { m.disposal_date.d() == d && m.disposal_ticker@ == t }
pub open spec fn legs_with_key(s: Seq<MatchResult>, d: int, t: Seq<char>) -> Seq<MatchResult>
    decreases s.len()
{
    if s.len() == 0 { Seq::<MatchResult>::empty() } else {
        let r = legs_with_key(s.drop_last(), d, t);
        if same_key(s.last(), d, t) { r.push(s.last()) } else { r }
    }
}
pub open spec fn details_of(s: Seq<MatchResult>) -> Seq<Match> { s.map(|i: int, m: MatchResult| m.match_detail) }

pub open spec fn key_of(m: MatchResult) -> (int, Seq<char>) { (m.disposal_date.d(), m.disposal_ticker@) }
pub proof fn lemma_legs_push(s: Seq<MatchResult>, m: MatchResult, d: int, t: Seq<char>)
    ensures legs_with_key(s.push(m), d, t) == (if same_key(m, d, t) { legs_with_key(s, d, t).push(m) } else { legs_with_key(s, d, t) })
{
    assert(s.push(m).drop_last() =~= s);
}
/// C02.disposal_qty / C04.disposal: a reported disposal is exactly the legs of its (date, security), in matcher order
pub open spec fn disposal_of(d: Disposal, input: Seq<MatchResult>) -> bool {
    let legs = legs_with_key(input, d.date.d(), d.ticker@);
    &&& legs.len() > 0
    &&& d.matches@ == details_of(legs)
    &&& d.quantity.v() == rsum(legs, f_mr_qty())
    &&& is_round_to(d.gross_proceeds.v(), rsum(legs, f_mr_gross()), 10)
    &&& is_round_to(d.proceeds.v(), rsum(legs, f_mr_net()), 10)
}
/// grouping invariant: every bucket holds exactly the legs of its key seen so far
pub open spec fn grouped(m: Map<(int, Seq<char>), Vec<MatchResult>>, prefix: Seq<MatchResult>) -> bool {
    &&& forall|k: (int, Seq<char>)| #[trigger] m.contains_key(k) ==> m[k]@ == legs_with_key(prefix, k.0, k.1) && m[k]@.len() > 0
    &&& forall|j: int| 0 <= j < prefix.len() ==> m.contains_key(key_of(#[trigger] prefix[j]))
}
/// if no leg of the prefix has key k then its bucket is empty
pub proof fn lemma_no_key_empty(prefix: Seq<MatchResult>, m: Map<(int, Seq<char>), Vec<MatchResult>>, k: (int, Seq<char>))
    requires grouped(m, prefix), !m.contains_key(k)
    ensures legs_with_key(prefix, k.0, k.1).len() == 0
    decreases prefix.len()
{
    if prefix.len() > 0 {
        let p = prefix.drop_last();
        assert forall|j: int| 0 <= j < prefix.len() implies key_of(#[trigger] prefix[j]) != k by { assert(m.contains_key(key_of(prefix[j]))); }
        lemma_no_key_sub(prefix, k);
    }
}
pub proof fn lemma_no_key_sub(prefix: Seq<MatchResult>, k: (int, Seq<char>))
    requires forall|j: int| 0 <= j < prefix.len() ==> key_of(#[trigger] prefix[j]) != k
    ensures legs_with_key(prefix, k.0, k.1).len() == 0
    decreases prefix.len()
{
    if prefix.len() > 0 {
        assert(key_of(prefix[prefix.len() - 1]) != k);
        assert forall|j: int| 0 <= j < prefix.drop_last().len() implies key_of(#[trigger] prefix.drop_last()[j]) != k by { assert(prefix.drop_last()[j] == prefix[j]); }
        lemma_no_key_sub(prefix.drop_last(), k);
    }
}

/// the legs whose disposal date lies in tax year y, in matcher order (C07.slice)
pub open spec fn legs_in_year(s: Seq<MatchResult>, y: int) -> Seq<MatchResult>
    decreases s.len()
{
    if s.len() == 0 { Seq::<MatchResult>::empty() } else {
        let r = legs_in_year(s.drop_last(), y);
        if in_tax_year(s.last().disposal_date.d(), y) { r.push(s.last()) } else { r }
    }
}
pub proof fn lemma_year_take_step(s: Seq<MatchResult>, i: int, y: int)
    requires 0 <= i < s.len()
    ensures legs_in_year(s.take(i + 1), y) == (if in_tax_year(s[i].disposal_date.d(), y) { legs_in_year(s.take(i), y).push(s[i]) } else { legs_in_year(s.take(i), y) })
{
    assert(s.take(i + 1).drop_last() =~= s.take(i)); assert(s.take(i + 1).last() == s[i]);
}
pub proof fn lemma_year_push(s: Seq<MatchResult>, m: MatchResult, y: int)
    ensures legs_in_year(s.push(m), y) == (if in_tax_year(m.disposal_date.d(), y) { legs_in_year(s, y).push(m) } else { legs_in_year(s, y) })
{
    assert(s.push(m).drop_last() =~= s);
}
pub open spec fn year_grouped(m: Map<u16, Vec<MatchResult>>, prefix: Seq<MatchResult>) -> bool {
    &&& forall|y: u16| #[trigger] m.contains_key(y) ==> m[y]@ == legs_in_year(prefix, y as int) && m[y]@.len() > 0
    &&& forall|j: int| 0 <= j < prefix.len() ==> 1900 <= tax_year_of((#[trigger] prefix[j]).disposal_date.d()) <= 2100 && m.contains_key(tax_year_of(prefix[j].disposal_date.d()) as u16)
}
pub proof fn lemma_no_year_sub(prefix: Seq<MatchResult>, y: int)
    requires forall|j: int| 0 <= j < prefix.len() ==> tax_year_of((#[trigger] prefix[j]).disposal_date.d()) != y
    ensures legs_in_year(prefix, y).len() == 0
    decreases prefix.len()
{
    if prefix.len() > 0 {
        assert(tax_year_of(prefix[prefix.len() - 1].disposal_date.d()) != y);
        assert forall|j: int| 0 <= j < prefix.drop_last().len() implies tax_year_of((#[trigger] prefix.drop_last()[j]).disposal_date.d()) != y by { assert(prefix.drop_last()[j] == prefix[j]); }
        lemma_no_year_sub(prefix.drop_last(), y);
    }
}
pub proof fn lemma_no_year_empty(prefix: Seq<MatchResult>, m: Map<u16, Vec<MatchResult>>, y: u16)
    requires year_grouped(m, prefix), !m.contains_key(y)
    ensures legs_in_year(prefix, y as int).len() == 0
{
    assert forall|j: int| 0 <= j < prefix.len() implies tax_year_of((#[trigger] prefix[j]).disposal_date.d()) != y as int by {
        assert(m.contains_key(tax_year_of(prefix[j].disposal_date.d()) as u16));
    }
    lemma_no_year_sub(prefix, y as int);
}
/// calendar lemma (from the Kani-checked axioms): [6 Apr y, 5 Apr y+1] is exactly tax year y
pub proof fn lemma_year_window(x: NaiveDate, y: int)
    requires civil_valid(y, 4, 6), civil_valid(y + 1, 4, 5)
    ensures (civil(y, 4, 6) <= x.d() <= civil(y + 1, 4, 5)) <==> tax_year_of(x.d()) == y
{
    ax_ymd(x);
    let (yy, mm, dd) = (year_of(x.d()), month_of(x.d()), day_of(x.d()));
    ax_order(yy, mm, dd, y, 4, 6);
    ax_order(y + 1, 4, 5, yy, mm, dd);
}
pub proof fn lemma_apr6_year(x: NaiveDate, y: int)
    requires civil_valid(y, 4, 6), x.d() == civil(y, 4, 6), civil_valid(y + 1, 4, 5)
    ensures tax_year_of(x.d()) == y
{
    lemma_year_window(x, y);
    ax_ymd(x);
    ax_order(y, 4, 6, y + 1, 4, 5);
}

pub open spec fn is_pool_value(pools: Map<Seq<char>, Section104Holding>, h: Section104Holding) -> bool {
    exists|k: Seq<char>| pools.contains_key(k) && #[trigger] pools[k] == h
}
/// dividends of tax year y: sums over the DIVIDEND lines dated in that year
pub open spec fn f_div_income(y: int) -> spec_fn(GbpTransaction) -> real {
    |tx: GbpTransaction| if tx.operation is Dividend && 1900 <= tax_year_of(tx.date.d()) <= 2100 && tax_year_of(tx.date.d()) == y { tx.operation->Dividend_total_value.v() } else { 0real }
}
pub open spec fn f_div_tax(y: int) -> spec_fn(GbpTransaction) -> real {
    |tx: GbpTransaction| if tx.operation is Dividend && 1900 <= tax_year_of(tx.date.d()) <= 2100 && tax_year_of(tx.date.d()) == y { tx.operation->Dividend_tax_paid.v() } else { 0real }
}
/// the disposal lies in tax year y
pub open spec fn in_tax_year(d: int, y: int) -> bool { tax_year_of(d) == y }
} // verus!
