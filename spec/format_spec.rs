verus! {
} // verus!
