//! native replay of a Kani counterexample: cgt-verif-replay <harness> <v1> <v2> ...   exit 0 = assertions hold, 101 = assertion failed (reproduced)
fn main() {
    let a: Vec<String> = std::env::args().collect();
    if a.len() == 3 && a[1] == "--ledger" {
        // witness replay for known findings: run the real parser + calculator on a ledger and print what happened
        let text = std::fs::read_to_string(&a[2]).expect("ledger file");
        let txs = match cgt_core::parser::parse_file(&text) { Ok(t) => t, Err(e) => { println!("PARSE-ERROR: {e}"); return; } };
        let cfg = cgt_core::Config::embedded().expect("embedded config");
        match cgt_core::calculator::calculate(&txs, None, None, &cfg) {
            Ok(rep) => {
                println!("ACCEPTED");
                for y in &rep.tax_years { for d in &y.disposals { for m in &d.matches {
                    println!("LEG {} {} {:?} qty={} cost={}", d.date, d.ticker, m.rule, m.quantity, m.allowable_cost);
                    if m.allowable_cost < rust_decimal::Decimal::ZERO { println!("NEGATIVE-COST"); }
                } } }
                for h in &rep.holdings { println!("HOLDING {} qty={} cost={}", h.ticker, h.quantity, h.total_cost); }
            }
            Err(e) => println!("REJECTED: {e}"),
        }
        return;
    }
    let vals: Vec<i128> = a[2..].iter().map(|x| x.parse().expect("integer")).collect();
    cgt_verif_kani::run_concrete(&a[1], vals);
    println!("REPLAY-OK: all assertions of {} hold for these inputs", a[1]);
}
