//! native replay of a Kani counterexample: cgt-verif-replay <harness> <v1> <v2> ...   exit 0 = assertions hold, 101 = assertion failed (reproduced)
fn main() {
    let a: Vec<String> = std::env::args().collect();
    let vals: Vec<i128> = a[2..].iter().map(|x| x.parse().expect("integer")).collect();
    cgt_verif_kani::run_concrete(&a[1], vals);
    println!("REPLAY-OK: all assertions of {} hold for these inputs", a[1]);
}
