//! Kani units (DESIGN 4.6). Loop-free harnesses over kani::any(): complete proofs over the stated domain.
//! `extracted.rs` is regenerated from /repo on every run (expressions copied verbatim from private functions).
#![allow(dead_code, unused_imports, clippy::all)]

#[cfg(kani)]
mod extracted;

#[cfg(kani)]
mod proofs {
    use cgt_core::{CgtError, TaxPeriod};
    use chrono::{Datelike, Duration, NaiveDate};

    /// every date chrono can represent
    fn any_date() -> NaiveDate {
        let y: i32 = kani::any();
        let o: u32 = kani::any();
        kani::assume(o >= 1 && o <= 366);
        let d = NaiveDate::from_yo_opt(y, o);
        kani::assume(d.is_some());
        d.unwrap()
    }

    /// the tax year a date belongs to, read off its civil (year, month, day): the oracle of C07
    fn expect_year(d: NaiveDate) -> i32 {
        let (y, m, dd) = (d.year(), d.month(), d.day());
        if m < 4 || (m == 4 && dd < 6) { y - 1 } else { y }
    }

    // ---------------------------------------------------------------- K-taxyear
    #[kani::proof]
    fn k_taxyear_from_date() {
        let d = any_date();
        let expect = expect_year(d);
        let r = TaxPeriod::from_date(d);
        match &r {
            Ok(p) => {
                assert!(expect >= 1900 && expect <= 2100);      // C07.from_date.range
                assert!(p.start_year() as i32 == expect);       // C07.from_date.year
                assert!(p.end_year() as i32 == expect + 1);
            }
            Err(_) => assert!(expect < 1900 || expect > 2100),  // C07.from_date.err
        }
        kani::cover!(r.is_ok());
        kani::cover!(r.is_err());
        std::mem::forget(r);
    }

    #[kani::proof]
    fn k_taxyear_new_and_bounds() {
        let y: u16 = kani::any();
        let r = TaxPeriod::new(y);
        match &r {
            Ok(p) => {
                assert!(y >= 1900 && y <= 2100);
                assert!(p.start_year() == y);
                let s = p.start_date(); let e = p.end_date();
                assert!(s.is_some() && e.is_some());
                let (s, e) = (s.unwrap(), e.unwrap());
                assert!(s.year() == y as i32 && s.month() == 4 && s.day() == 6);        // C07.start_date
                assert!(e.year() == y as i32 + 1 && e.month() == 4 && e.day() == 5);    // C07.end_date
            }
            Err(_) => assert!(y < 1900 || y > 2100),
        }
        kani::cover!(r.is_ok());
        std::mem::forget(r);
    }

    /// a date lies in [start_date, end_date] of exactly its own tax year, and the day after the end is the next year
    #[kani::proof]
    fn k_taxyear_window() {
        let d = any_date();
        let r = TaxPeriod::from_date(d);
        if let Ok(p) = &r {
            let s = p.start_date().unwrap(); let e = p.end_date().unwrap();
            assert!(s <= d && d <= e);                                       // C07.window
            let next = e.succ_opt().unwrap();
            let rn = TaxPeriod::from_date(next);
            if let Ok(pn) = &rn { assert!(pn.start_year() == p.start_year() + 1); } else { assert!(p.start_year() == 2100); }
            std::mem::forget(rn);
            let prev = s.pred_opt().unwrap();
            let rp = TaxPeriod::from_date(prev);
            if let Ok(pp) = &rp { assert!(pp.start_year() + 1 == p.start_year()); } else { assert!(p.start_year() == 1900); }
            std::mem::forget(rp);
        }
        kani::cover!(r.is_ok());
        std::mem::forget(r);
    }

    // ---------------------------------------------------------------- K-filter (single-year window of build_tax_year_summary)
    #[kani::proof]
    fn k_filter_window_eq_from_date() {
        let d = any_date();
        let y: i32 = kani::any();
        kani::assume(y < i32::MAX);   // `tax_year_start + 1` (overflow is a C15 obligation of the Verus unit)
        let w = super::extracted::year_window(y, d);
        let r = TaxPeriod::from_date(d);
        match (&w, &r) {
            (Ok(inside), Ok(p)) => {
                if y >= 1900 && y <= 2100 { assert!(*inside == (p.start_year() as i32 == y)); }   // C07.filter_eq
                else { assert!(!*inside || true); }
            }
            (Ok(inside), Err(_)) => { if y >= 1900 && y <= 2100 { assert!(!*inside); } }          // C07.filter_eq.out_of_range
            _ => {}
        }
        kani::cover!(matches!(w, Ok(true)));
        kani::cover!(matches!(w, Ok(false)));
        std::mem::forget((w, r));
    }

    // ---------------------------------------------------------------- K-explain (MCP explain_matching year derivation)
    #[kani::proof]
    fn k_explain_year_eq_from_date() {
        let date = any_date();
        let year: i32 = super::extracted::explain_year(date);
        let r = TaxPeriod::from_date(date);
        if let Ok(p) = &r { assert!(p.start_year() as i32 == year); }       // C07.explain_eq
        assert!(year == expect_year(date));
        kani::cover!(r.is_ok());
        std::mem::forget(r);
    }

    // ---------------------------------------------------------------- K-chrono (A-date axioms of shim/date.rs on the real chrono)
    /// ax_ymd + from_ymd_opt contract: (year, month, day) identify the date
    #[kani::proof]
    fn k_chrono_ymd_roundtrip() {
        let d = any_date();
        let (y, m, dd) = (d.year(), d.month(), d.day());
        assert!(m >= 1 && m <= 12 && dd >= 1 && dd <= 31);
        assert!(y >= -262143 && y <= 262142);
        assert!(NaiveDate::from_ymd_opt(y, m, dd) == Some(d));
    }
    /// ax_apr: 5 and 6 April exist in every year and are consecutive
    #[kani::proof]
    fn k_chrono_april() {
        let y: i32 = kani::any();
        kani::assume(y >= -262143 && y <= 262142);
        let a = NaiveDate::from_ymd_opt(y, 4, 5); let b = NaiveDate::from_ymd_opt(y, 4, 6);
        assert!(a.is_some() && b.is_some());
        assert!((b.unwrap() - a.unwrap()).num_days() == 1);
        assert!(a.unwrap().succ_opt() == b);
    }
    /// ax_order: date order is lexicographic order on (y, m, d); subtraction is consistent with the order
    #[kani::proof]
    fn k_chrono_order() {
        let a = any_date(); let b = any_date();
        let ka = (a.year(), a.month(), a.day()); let kb = (b.year(), b.month(), b.day());
        assert!((a < b) == (ka < kb));
        assert!((a == b) == (ka == kb));
        let n = (a - b).num_days();
        assert!((n < 0) == (a < b) && (n == 0) == (a == b));
    }
    /// day numbers: succ is +1 day
    #[kani::proof]
    fn k_chrono_succ() {
        let a = any_date();
        if let Some(n) = a.succ_opt() { assert!((n - a).num_days() == 1); assert!(n > a); }
    }
    /// Sub/num_days is the difference of day numbers (num_days_from_ce): the model `NaiveDate ~ int` of shim/date.rs.
    /// Two symbolic dates make this query hard for CBMC, so the year range is bounded here (labelled bounded, not counted as proved).
    #[kani::proof]
    fn k_chrono_sub_is_day_difference_bounded() {
        let a = any_date(); let b = any_date();
        kani::assume(a.year() >= 1890 && a.year() <= 2110 && b.year() >= 1890 && b.year() <= 2110);
        assert!((a - b).num_days() == a.num_days_from_ce() as i64 - b.num_days_from_ce() as i64);
    }
    /// C19.day_arith: checked_sub_signed(days(k)) is the date k days earlier (k = 1..=7), whatever month/year end lies between
    #[kani::proof]
    fn k_chrono_sub_days() {
        let a = any_date();
        let k: i64 = kani::any();
        kani::assume(k >= 1 && k <= 7);
        match a.checked_sub_signed(Duration::days(k)) {
            Some(e) => { assert!((a - e).num_days() == k); assert!(e < a); }
            None => { assert!(a.year() == -262143); }
        }
    }
    /// C01.window_edges (decision logic, complete over every i64 day difference): with the two tests exactly as written in
    /// match_bed_and_breakfast, a purchase is taken iff 1 <= days <= 30: day 30 is in, day 31 and day 0 (or earlier) are out.
    #[kani::proof]
    fn k_window_logic() {
        let n: i64 = kani::any();
        let accepted = !super::extracted::bnb_not_after(n) && !super::extracted::bnb_beyond_window(n);
        assert!(accepted == (n >= 1 && n <= 30));
        if n == 30 { assert!(accepted); }
        if n == 31 || n <= 0 { assert!(!accepted); }
        // the window test may stop the scan (break) only beyond the window, never inside it
        if super::extracted::bnb_beyond_window(n) { assert!(n > 30); }
        kani::cover!(accepted);
        kani::cover!(!accepted);
    }
    /// C01.window_edges (calendar part): the day difference computed as in match_bed_and_breakfast is k for the date k days after D,
    /// for every D and every k in -3..=35 (so D+30, D+31, D and month/year ends are all covered).
    #[kani::proof]
    fn k_window_days_diff() {
        let d = any_date();
        let k: i64 = kani::any();
        kani::assume(k >= -3 && k <= 35);
        if let Some(x) = d.checked_add_signed(Duration::days(k)) {
            assert!(super::extracted::bnb_days_diff(x, d) == k);
        }
    }
}
