//! Kani units (DESIGN 4.6). Loop-free harness bodies over a value source: under Kani the source is kani::any()
//! (complete proofs over the stated domain); natively (`replay` binary) it is a list of concrete values, so a Kani
//! counterexample is re-run against the real code. `extracted.rs` is regenerated from /repo on every run.
#![allow(dead_code, unused_imports, clippy::all)]

pub mod extracted;

/// where harness inputs come from
pub trait Src {
    fn i32(&mut self) -> i32; fn u32(&mut self) -> u32; fn i64(&mut self) -> i64; fn u16(&mut self) -> u16;
    fn assume(&mut self, b: bool); fn cover(&mut self, b: bool);
}

pub mod bodies {
    use super::Src;
    use cgt_core::{CgtError, TaxPeriod};
    use chrono::{Datelike, Duration, NaiveDate};

    /// every date chrono can represent
    pub fn any_date<S: Src>(s: &mut S) -> NaiveDate {
        let y: i32 = s.i32();
        let o: u32 = s.u32();
        s.assume(o >= 1 && o <= 366);
        let d = NaiveDate::from_yo_opt(y, o);
        s.assume(d.is_some());
        d.unwrap()
    }

    /// the tax year a date belongs to, read off its civil (year, month, day): the oracle of C07
    fn expect_year(d: NaiveDate) -> i32 {
        let (y, m, dd) = (d.year(), d.month(), d.day());
        if m < 4 || (m == 4 && dd < 6) { y - 1 } else { y }
    }

    // ---------------------------------------------------------------- K-taxyear
    pub fn k_taxyear_from_date<S: Src>(s: &mut S) {
        let d = any_date(s);
        let expect = expect_year(d);
        let r = TaxPeriod::from_date(d);
        match &r {
            Ok(p) => {
                assert!(expect >= 1900 && expect <= 2100);      // C07.from_date.range
                assert!(p.start_year() as i32 == expect);       // C07.from_date.year
                assert!(p.end_year() as i32 == expect + 1);
            }
            Err(_) => assert!(expect < 1900 || expect > 2100),  // C07.from_date.err
        }
        s.cover(r.is_ok());
        s.cover(r.is_err());
        std::mem::forget(r);
    }

    pub fn k_taxyear_new_and_bounds<S: Src>(s: &mut S) {
        let y: u16 = s.u16();
        let r = TaxPeriod::new(y);
        match &r {
            Ok(p) => {
                assert!(y >= 1900 && y <= 2100);
                assert!(p.start_year() == y);
                let sd = p.start_date(); let e = p.end_date();
                assert!(sd.is_some() && e.is_some());
                let (sd, e) = (sd.unwrap(), e.unwrap());
                assert!(sd.year() == y as i32 && sd.month() == 4 && sd.day() == 6);        // C07.start_date
                assert!(e.year() == y as i32 + 1 && e.month() == 4 && e.day() == 5);    // C07.end_date
            }
            Err(_) => assert!(y < 1900 || y > 2100),
        }
        s.cover(r.is_ok());
        std::mem::forget(r);
    }

    /// a date lies in [start_date, end_date] of exactly its own tax year, and the day after the end is the next year
    pub fn k_taxyear_window<S: Src>(s: &mut S) {
        let d = any_date(s);
        let r = TaxPeriod::from_date(d);
        if let Ok(p) = &r {
            let sd = p.start_date().unwrap(); let e = p.end_date().unwrap();
            assert!(sd <= d && d <= e);                                       // C07.window
            let next = e.succ_opt().unwrap();
            let rn = TaxPeriod::from_date(next);
            if let Ok(pn) = &rn { assert!(pn.start_year() == p.start_year() + 1); } else { assert!(p.start_year() == 2100); }
            std::mem::forget(rn);
            let prev = sd.pred_opt().unwrap();
            let rp = TaxPeriod::from_date(prev);
            if let Ok(pp) = &rp { assert!(pp.start_year() + 1 == p.start_year()); } else { assert!(p.start_year() == 1900); }
            std::mem::forget(rp);
        }
        s.cover(r.is_ok());
        std::mem::forget(r);
    }

    // ---------------------------------------------------------------- K-filter (single-year window of build_tax_year_summary)
    pub fn k_filter_window_eq_from_date<S: Src>(s: &mut S) {
        let d = any_date(s);
        let y: i32 = s.i32();
        s.assume(y < i32::MAX);   // `tax_year_start + 1` (overflow is a C15 obligation of the Verus unit)
        let w = crate::extracted::year_window(y, d);
        let r = TaxPeriod::from_date(d);
        match (&w, &r) {
            (Ok(inside), Ok(p)) => {
                if y >= 1900 && y <= 2100 { assert!(*inside == (p.start_year() as i32 == y)); }   // C07.filter_eq
                else { assert!(!*inside || true); }
            }
            (Ok(inside), Err(_)) => { if y >= 1900 && y <= 2100 { assert!(!*inside); } }          // C07.filter_eq.out_of_range
            _ => {}
        }
        s.cover(matches!(w, Ok(true)));
        s.cover(matches!(w, Ok(false)));
        std::mem::forget((w, r));
    }

    // ---------------------------------------------------------------- K-explain (MCP explain_matching year derivation)
    pub fn k_explain_year_eq_from_date<S: Src>(s: &mut S) {
        let date = any_date(s);
        let year: i32 = crate::extracted::explain_year(date);
        let r = TaxPeriod::from_date(date);
        if let Ok(p) = &r { assert!(p.start_year() as i32 == year); }       // C07.explain_eq
        assert!(year == expect_year(date));
        s.cover(r.is_ok());
        std::mem::forget(r);
    }

    // ---------------------------------------------------------------- K-chrono (A-date axioms of shim/date.rs on the real chrono)
    /// ax_ymd + from_ymd_opt contract: (year, month, day) identify the date
    pub fn k_chrono_ymd_roundtrip<S: Src>(s: &mut S) {
        let d = any_date(s);
        let (y, m, dd) = (d.year(), d.month(), d.day());
        assert!(m >= 1 && m <= 12 && dd >= 1 && dd <= 31);
        assert!(y >= -262143 && y <= 262142);
        assert!(NaiveDate::from_ymd_opt(y, m, dd) == Some(d));
    }
    /// ax_apr: 5 and 6 April exist in every year and are consecutive
    pub fn k_chrono_april<S: Src>(s: &mut S) {
        let y: i32 = s.i32();
        s.assume(y >= -262143 && y <= 262142);
        let a = NaiveDate::from_ymd_opt(y, 4, 5); let b = NaiveDate::from_ymd_opt(y, 4, 6);
        assert!(a.is_some() && b.is_some());
        assert!((b.unwrap() - a.unwrap()).num_days() == 1);
        assert!(a.unwrap().succ_opt() == b);
    }
    /// ax_order: date order is lexicographic order on (y, m, d); subtraction is consistent with the order
    pub fn k_chrono_order<S: Src>(s: &mut S) {
        let a = any_date(s); let b = any_date(s);
        let ka = (a.year(), a.month(), a.day()); let kb = (b.year(), b.month(), b.day());
        assert!((a < b) == (ka < kb));
        assert!((a == b) == (ka == kb));
        let n = (a - b).num_days();
        assert!((n < 0) == (a < b) && (n == 0) == (a == b));
    }
    /// day numbers: succ is +1 day
    pub fn k_chrono_succ<S: Src>(s: &mut S) {
        let a = any_date(s);
        if let Some(n) = a.succ_opt() { assert!((n - a).num_days() == 1); assert!(n > a); }
    }
    /// Sub/num_days is the difference of day numbers (num_days_from_ce): the model `NaiveDate ~ int` of shim/date.rs.
    /// Two symbolic dates make this query hard for CBMC, so the year range is bounded here (labelled bounded, not counted as proved).
    pub fn k_chrono_sub_is_day_difference_bounded<S: Src>(s: &mut S) {
        let a = any_date(s); let b = any_date(s);
        s.assume(a.year() >= 1890 && a.year() <= 2110 && b.year() >= 1890 && b.year() <= 2110);
        assert!((a - b).num_days() == a.num_days_from_ce() as i64 - b.num_days_from_ce() as i64);
    }
    /// C19.day_arith: checked_sub_signed(days(k)) is the date k days earlier (k = 1..=7), whatever month/year end lies between
    pub fn k_chrono_sub_days<S: Src>(s: &mut S) {
        let a = any_date(s);
        let k: i64 = s.i64();
        s.assume(k >= 1 && k <= 7);
        match a.checked_sub_signed(Duration::days(k)) {
            Some(e) => { assert!((a - e).num_days() == k); assert!(e < a); }
            None => { assert!(a.year() == -262143); }
        }
    }
    /// A-dec.round (BOUNDED: every i32 mantissa at the stated scale): the real rust_decimal rounds to pence with midpoints away from zero,
    /// which is what shim/decimal.rs assumes of `round_dp_with_strategy(2, MidpointAwayFromZero)` and what C17.round_mode rests on.
    fn dec_round_check(m: i32, scale: u32, p: i64) {
        use rust_decimal::{Decimal, RoundingStrategy};
        let d = Decimal::new(m as i64, scale);
        let r = d.round_dp_with_strategy(2, RoundingStrategy::MidpointAwayFromZero);
        let a = (m as i64).abs();
        let q = (a + p / 2) / p;                       // half away from zero on the magnitude
        let expect = if m < 0 { -q } else { q };
        assert!(r == Decimal::new(expect, 2));
    }
    pub fn k_dec_round_scale3_bounded<S: Src>(s: &mut S) { dec_round_check(s.i32(), 3, 10) }
    pub fn k_dec_round_scale4_bounded<S: Src>(s: &mut S) { dec_round_check(s.i32(), 4, 100) }
    /// a value with at most two decimal places is returned unchanged
    pub fn k_dec_round_le2_bounded<S: Src>(s: &mut S) {
        use rust_decimal::{Decimal, RoundingStrategy};
        let m = s.i32(); let sc = s.u32(); s.assume(sc <= 2);
        let d = Decimal::new(m as i64, sc);
        assert!(d.round_dp_with_strategy(2, RoundingStrategy::MidpointAwayFromZero) == d);
    }
    /// C01.window_edges (decision logic, complete over every i64 day difference): with the two tests exactly as written in
    /// match_bed_and_breakfast, a purchase is taken iff 1 <= days <= 30: day 30 is in, day 31 and day 0 (or earlier) are out.
    pub fn k_window_logic<S: Src>(s: &mut S) {
        let n: i64 = s.i64();
        let accepted = !crate::extracted::bnb_not_after(n) && !crate::extracted::bnb_beyond_window(n);
        assert!(accepted == (n >= 1 && n <= 30));
        if n == 30 { assert!(accepted); }
        if n == 31 || n <= 0 { assert!(!accepted); }
        // the window test may stop the scan (break) only beyond the window, never inside it
        if crate::extracted::bnb_beyond_window(n) { assert!(n > 30); }
        s.cover(accepted);
        s.cover(!accepted);
    }
    /// C01.window_edges (calendar part): the day difference computed as in match_bed_and_breakfast is k for the date k days after D,
    /// for every D and every k in -3..=35 (so D+30, D+31, D and month/year ends are all covered).
    pub fn k_window_days_diff<S: Src>(s: &mut S) {
        let d = any_date(s);
        let k: i64 = s.i64();
        s.assume(k >= -3 && k <= 35);
        if let Some(x) = d.checked_add_signed(Duration::days(k)) {
            assert!(crate::extracted::bnb_days_diff(x, d) == k);
        }
    }
}

/// concrete value source for replay
pub struct Concrete { pub vals: Vec<i128>, pub pos: usize, pub assumption_failed: bool }
impl Concrete { fn next(&mut self) -> i128 { let v = self.vals.get(self.pos).copied().unwrap_or(0); self.pos += 1; v } }
impl Src for Concrete {
    fn i32(&mut self) -> i32 { self.next() as i32 } fn u32(&mut self) -> u32 { self.next() as u32 }
    fn i64(&mut self) -> i64 { self.next() as i64 } fn u16(&mut self) -> u16 { self.next() as u16 }
    fn assume(&mut self, b: bool) { if !b { self.assumption_failed = true; panic!("ASSUMPTION-VIOLATED"); } }
    fn cover(&mut self, _b: bool) {}
}
pub const HARNESSES: &[&str] = &["k_taxyear_from_date", "k_taxyear_new_and_bounds", "k_taxyear_window", "k_filter_window_eq_from_date", "k_explain_year_eq_from_date", "k_chrono_ymd_roundtrip", "k_chrono_april", "k_chrono_order", "k_chrono_succ", "k_chrono_sub_is_day_difference_bounded", "k_chrono_sub_days", "k_window_logic", "k_window_days_diff", "k_dec_round_scale3_bounded", "k_dec_round_scale4_bounded", "k_dec_round_le2_bounded"];
pub fn run_concrete(name: &str, vals: Vec<i128>) {
    let mut c = Concrete { vals, pos: 0, assumption_failed: false };
    match name {
        "k_taxyear_from_date" => bodies::k_taxyear_from_date(&mut c),
        "k_taxyear_new_and_bounds" => bodies::k_taxyear_new_and_bounds(&mut c),
        "k_taxyear_window" => bodies::k_taxyear_window(&mut c),
        "k_filter_window_eq_from_date" => bodies::k_filter_window_eq_from_date(&mut c),
        "k_explain_year_eq_from_date" => bodies::k_explain_year_eq_from_date(&mut c),
        "k_chrono_ymd_roundtrip" => bodies::k_chrono_ymd_roundtrip(&mut c),
        "k_chrono_april" => bodies::k_chrono_april(&mut c),
        "k_chrono_order" => bodies::k_chrono_order(&mut c),
        "k_chrono_succ" => bodies::k_chrono_succ(&mut c),
        "k_chrono_sub_is_day_difference_bounded" => bodies::k_chrono_sub_is_day_difference_bounded(&mut c),
        "k_chrono_sub_days" => bodies::k_chrono_sub_days(&mut c),
        "k_window_logic" => bodies::k_window_logic(&mut c),
        "k_window_days_diff" => bodies::k_window_days_diff(&mut c),
        "k_dec_round_scale3_bounded" => bodies::k_dec_round_scale3_bounded(&mut c),
        "k_dec_round_scale4_bounded" => bodies::k_dec_round_scale4_bounded(&mut c),
        "k_dec_round_le2_bounded" => bodies::k_dec_round_le2_bounded(&mut c),
        _ => panic!("unknown harness"),
    }
}

#[cfg(kani)]
mod proofs {
    use super::Src;
    struct K;
    impl Src for K {
        fn i32(&mut self) -> i32 { kani::any() } fn u32(&mut self) -> u32 { kani::any() }
        fn i64(&mut self) -> i64 { kani::any() } fn u16(&mut self) -> u16 { kani::any() }
        fn assume(&mut self, b: bool) { kani::assume(b) } fn cover(&mut self, b: bool) { kani::cover!(b) }
    }
    #[kani::proof] fn k_taxyear_from_date() { super::bodies::k_taxyear_from_date(&mut K) }
    #[kani::proof] fn k_taxyear_new_and_bounds() { super::bodies::k_taxyear_new_and_bounds(&mut K) }
    #[kani::proof] fn k_taxyear_window() { super::bodies::k_taxyear_window(&mut K) }
    #[kani::proof] fn k_filter_window_eq_from_date() { super::bodies::k_filter_window_eq_from_date(&mut K) }
    #[kani::proof] fn k_explain_year_eq_from_date() { super::bodies::k_explain_year_eq_from_date(&mut K) }
    #[kani::proof] fn k_chrono_ymd_roundtrip() { super::bodies::k_chrono_ymd_roundtrip(&mut K) }
    #[kani::proof] fn k_chrono_april() { super::bodies::k_chrono_april(&mut K) }
    #[kani::proof] fn k_chrono_order() { super::bodies::k_chrono_order(&mut K) }
    #[kani::proof] fn k_chrono_succ() { super::bodies::k_chrono_succ(&mut K) }
    #[kani::proof] fn k_chrono_sub_is_day_difference_bounded() { super::bodies::k_chrono_sub_is_day_difference_bounded(&mut K) }
    #[kani::proof] fn k_chrono_sub_days() { super::bodies::k_chrono_sub_days(&mut K) }
    #[kani::proof] fn k_window_logic() { super::bodies::k_window_logic(&mut K) }
    #[kani::proof] fn k_window_days_diff() { super::bodies::k_window_days_diff(&mut K) }
    // rust_decimal's 96-bit division loops: at most 3 words, unwinding assertions on (complete for the stated mantissa range when they pass)
    #[kani::proof] #[kani::unwind(8)] fn k_dec_round_scale3_bounded() { super::bodies::k_dec_round_scale3_bounded(&mut K) }
    #[kani::proof] #[kani::unwind(8)] fn k_dec_round_scale4_bounded() { super::bodies::k_dec_round_scale4_bounded(&mut K) }
    #[kani::proof] #[kani::unwind(8)] fn k_dec_round_le2_bounded() { super::bodies::k_dec_round_le2_bounded(&mut K) }
}
