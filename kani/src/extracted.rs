// GENERATED from /repo on every run by vf/kani.py -- expressions copied verbatim (rule R0 only)
#![allow(unused_parens)]
use cgt_core::{CgtError, TaxPeriod};
use chrono::{Datelike, NaiveDate};

// crates/cgt-core/src/calculator.rs build_tax_year_summary: the two window bounds and the filter predicate
pub fn year_window(tax_year_start: i32, disposal_date: NaiveDate) -> Result<bool, CgtError> {
    let start_date =
        chrono::NaiveDate::from_ymd_opt(tax_year_start, 4, 6).ok_or(CgtError::InvalidDateYear {
            year: tax_year_start,
        })?;
    let end_date = chrono::NaiveDate::from_ymd_opt(tax_year_start + 1, 4, 5).ok_or(
        CgtError::InvalidDateYear {
            year: tax_year_start + 1,
        },
    )?;
    Ok(disposal_date >= start_date && disposal_date <= end_date)
}

// crates/cgt-mcp/src/server.rs explain_matching: `let year = ...;`
pub fn explain_year(date: NaiveDate) -> i32 {
    let year = if date.month() < 4 || (date.month() == 4 && date.day() < 6) {
            date.year() - 1
        } else {
            date.year()
        };
    year
}

// crates/cgt-core/src/matcher/bed_and_breakfast.rs
const BNB_WINDOW_DAYS: i64 = 30;
pub fn bnb_days_diff(tx_date: NaiveDate, sell_date: NaiveDate) -> i64 {
    let days_diff = (tx_date - sell_date).num_days();
    days_diff
}
pub fn bnb_not_after(days_diff: i64) -> bool { days_diff <= 0 }
pub fn bnb_beyond_window(days_diff: i64) -> bool { days_diff > BNB_WINDOW_DAYS }
