"""Driver: ./check <PID> --tier quick|thorough | --replay F | --dev <unit> | --setup | --all"""
import sys, os, json, time, re, glob, hashlib, subprocess
from concurrent.futures import ThreadPoolExecutor
from . import unit as U, verus as V
from .rules import Unsupported

ROOT = os.path.dirname(os.path.dirname(os.path.abspath(__file__)))
BUILD = os.environ.get('VERIF_BUILD', os.path.join(ROOT, 'build'))   # (VERIF_BUILD: private build dir for parallel development runs)
EVID = os.path.join(ROOT, 'evidence')
REPLAY = os.path.join(ROOT, 'build', 'replay')


def load_units():
    us = []
    for p in sorted(glob.glob(os.path.join(ROOT, 'contracts', '*.vc'))):
        us.append(U.parse_vc(p))
    return us


def has_findings(u, pid=None):
    for fs in u.fns:
        for c in fs.requires + fs.ensures + [c for l in fs.loops for c in l.invariants + l.ensures + l.except_break] + getattr(fs, 'tagged_proofs', []):
            if c.finding and (pid is None or pid in c.props()): return True
    return False


def unit_props(u):
    ps = set()
    for fs in u.fns:
        for c in fs.requires + fs.ensures + [c for l in fs.loops for c in l.invariants + l.ensures + l.except_break] + getattr(fs, 'tagged_proofs', []):
            ps.update(c.props())
    ps.update(getattr(u, 'serves', []))
    return ps


def load_known():
    p = os.path.join(ROOT, 'known-findings.json')
    if not os.path.exists(p): return []
    return json.load(open(p)).get('findings', [])


class UnitRun:
    pass


def run_unit(u, tier, pid=None):
    """Build + verify one unit (and its reachability twin). Returns UnitRun."""
    ur = UnitRun(); ur.unit = u; ur.error = None; ur.twin_missing = []
    os.makedirs(BUILD, exist_ok=True)
    t0 = time.time()
    try:
        gen = U.build(u, BUILD, twin=False)
        tw = U.build(U.parse_vc(u.path), BUILD, twin=True)
    except Unsupported as e:
        ur.error = 'extraction: ' + str(e); ur.gen = None; ur.wall = time.time() - t0
        return ur
    out = os.path.join(BUILD, u.name + '.rs'); open(out, 'w').write(gen.text)
    outt = os.path.join(BUILD, u.name + '_twin.rs'); open(outt, 'w').write(tw.text)
    open(os.path.join(BUILD, u.name + '.diff'), 'w').write(gen.diff)
    with ThreadPoolExecutor(max_workers=2) as ex:
        f1 = ex.submit(V.run, out, (), 900, 30)   # three times the default resource limit: fewer solver-instability 'undecided' results
        f2 = ex.submit(V.run, outt)
        r = f1.result(); rt = f2.result()
    ur.gen, ur.res = gen, r
    ur.ver, ur.unsup = V.classify(r.diags, gen)
    if r.timed_out: ur.error = 'verus timed out'
    elif not r.have_results: ur.error = 'verus produced no verification results: ' + (ur.unsup[0].rendered[:600] if ur.unsup else r.raw_err[:600])
    elif ur.unsup: ur.error = 'verus rejected the generated file: ' + ur.unsup[0].rendered[:600]
    # twins: every injected assert(false) must be reported as failing
    tver, tunsup = V.classify(rt.diags, tw)
    hit = set()
    for d in tver:
        if d.kind == 'assert':
            for (a, b, prim, lab) in d.lines:
                for tid, ln in tw.marks.items():
                    if tid.startswith('TWIN:') and a <= ln <= b: hit.add(tid)
    ur.twin_points = list(tw.twin_points)
    ur.twin_missing = [t for t in tw.twin_points if t not in hit] if not ur.error else []
    if (not rt.have_results or tunsup) and not ur.error:
        ur.error = 'reachability twin could not be checked: ' + (tunsup[0].rendered[:400] if tunsup else rt.raw_err[:400])
    ur.twin_cmd = rt.cmd
    # findings variant: the same unit plus the clauses that record known defects (expected to fail; nothing depends on them);
    # only the functions carrying such clauses are verified there
    ur.finding_results = {}
    if has_findings(U.parse_vc(u.path), pid) and not ur.error:
        try:
            fresh = U.parse_vc(u.path)
            fg = U.build(fresh, BUILD, findings=True)
            outf = os.path.join(BUILD, u.name + '_findings.rs'); open(outf, 'w').write(fg.text)
            fns = sorted({c.fn for c in fg.clauses if c.finding and (pid is None or pid in c.props())})
            def one(fn):
                mod = U._owner_module(fn, fresh); rel = fn[len(mod) + 2:]
                return fn, V.run(outf, extra=['--verify-only-module', mod, '--verify-function', rel])
            with ThreadPoolExecutor(max_workers=4) as ex:
                runs_f = dict(ex.map(one, fns))
            for c in fg.clauses:
                if not c.finding or c.fn not in runs_f: continue
                rf = runs_f[c.fn]
                fver, funs = V.classify(rf.diags, fg)
                failed = {d.clause.id: d for d in fver if d.clause is not None}
                ur.finding_results[(c.fn, c.tag, c.finding)] = {'clause': c, 'failed': c.id in failed, 'diag': failed[c.id].rendered[:2500] if c.id in failed else '', 'ok_run': rf.have_results and not funs}
        except Unsupported as e:
            ur.finding_results = {'error': str(e)}
    ur.seeds = []
    if tier == 'thorough' and not ur.error:
        # stability: two more solver seeds, the second with two thirds of the resource limit
        extra = [['--smt-option', 'smt.random_seed=7', '--rlimit', '30'], ['--smt-option', 'smt.random_seed=31', '--rlimit', '20']]
        for ex_ in extra:
            rr = V.run(out, extra=ex_)
            v2, u2 = V.classify(rr.diags, gen)
            ur.seeds.append({'args': ' '.join(ex_), 'verified': rr.verified, 'errors': rr.errors, 'failed': sorted({(d.clause.id if d.clause else d.fn or '?') for d in v2}), 'have_results': rr.have_results})
    ur.wall = time.time() - t0
    return ur


IMPLICIT = {'overflow': 'C15.int', 'decreases': 'C15.term'}


def implicit_tag(d):
    if d.kind == 'overflow': return 'C15.int'
    if d.kind == 'decreases': return 'C15.term'
    if d.kind == 'precondition':
        r = d.rendered
        if 'index in bounds' in d.message or 'index' in r and 'vec' in r.lower(): return 'C15.index'
        if 'std_specs/ops.rs' in r and ('/' in (r.split('\n')[3] if len(r.split('\n')) > 3 else '')): return 'C15.div'
        if 'unwrap' in r or 'expect' in r: return 'C15.unwrap'
    return None


_BASELINE = None
def uncontracted(u, gen):
    have = {fs.path for fs in u.fns}
    return sorted({n for n, a, b in gen.fn_ranges if _in_extracted(n, gen) and n not in have})


def new_uncontracted(u, gen):
    """Functions of the extracted text without an entry in the contract file that were not there when the contracts were written
    (contracts/baseline.json, written by tools/gen_baseline.py on the unchanged tree)."""
    global _BASELINE
    if _BASELINE is None:
        bp = os.path.join(ROOT, 'contracts', 'baseline.json')
        _BASELINE = json.load(open(bp)) if os.path.exists(bp) else {}
    if u.name not in _BASELINE: return []
    base = set(_BASELINE[u.name])
    return [n for n in uncontracted(u, gen) if n not in base]


def decide(pid, runs, known):
    """Returns dict with verdict info for property pid."""
    obligations = []      # dicts
    violations = []; undecided = []; known_seen = []
    for ur in runs:
        u = ur.unit
        if ur.gen is None:
            undecided.append({'unit': u.name, 'why': ur.error}); continue
        failed_by_clause = {}
        for d in ur.ver:
            if d.clause is not None: failed_by_clause.setdefault(d.clause.id, []).append(d)
        fn_support_fail = {}
        for d in ur.ver:
            tagged = d.clause is not None and d.clause.is_property
            if not tagged:
                fn_support_fail.setdefault(d.fn, []).append(d)
        serves_c15 = 'C15' in getattr(u, 'serves', [])
        for c in ur.gen.clauses:
            if pid not in c.props(): continue
            tags = [t for t in c.tag.split(',') if t.split('.')[0] == pid]
            ob = {'id': tags[0], 'tags': tags, 'unit': u.name, 'function': c.fn, 'kind': c.kind, 'clause': c.text, 'backend': 'Verus-Z3', 'src': f'contracts/{u.name}.vc:{c.src_line}'}
            fd = ur.res.fn_details
            if c.id in failed_by_clause:
                d = failed_by_clause[c.id][0]
                ob['status'] = 'failed'; ob['diagnostic'] = d.rendered[:3000]; ob['failed_in'] = d.fn
                if d.kind == 'rlimit': ob['status'] = 'undecided'; ob['why'] = 'resource limit'
            elif ur.error:
                ob['status'] = 'undecided'; ob['why'] = ur.error
            else:
                ob['status'] = 'discharged'
            obligations.append(ob)
        fr = getattr(ur, 'finding_results', {})
        if isinstance(fr, dict) and 'error' not in fr:
            for (fn_, tag_, fid_), info in fr.items():
                c = info['clause']
                if pid not in c.props(): continue
                tags = [t for t in c.tag.split(',') if t.split('.')[0] == pid]
                ob = {'id': tags[0], 'tags': tags, 'unit': u.name, 'function': c.fn, 'kind': c.kind + ' (findings variant)', 'clause': c.text, 'backend': 'Verus-Z3',
                      'src': f'contracts/{u.name}.vc:{c.src_line}', 'finding_id': fid_}
                if not info['ok_run']: ob['status'] = 'undecided'; ob['why'] = 'findings variant did not verify cleanly'
                elif info['failed']: ob['status'] = 'failed'; ob['diagnostic'] = info['diag']; ob['failed_in'] = c.fn
                else: ob['status'] = 'discharged'
                obligations.append(ob)
        if pid == 'C15' and serves_c15:
            # implicit safety obligations: one per function of the unit, discharged unless a safety diagnostic hits it
            fns = sorted({n for n, a, b in ur.gen.fn_ranges if not n.startswith('verif_') and _in_extracted(n, ur.gen)})
            bad = {}
            for d in ur.ver:
                if d.clause is None:
                    t = implicit_tag(d)
                    if t: bad.setdefault(d.fn, []).append((t, d))
            for n in fns:
                ob = {'id': 'C15.safety', 'tags': ['C15.safety'], 'unit': u.name, 'function': n, 'kind': 'implicit', 'backend': 'Verus-Z3',
                      'clause': 'no Decimal division by zero, no out-of-bounds index, no integer overflow, no failing unwrap, every loop terminates'}
                if n in bad:
                    t, d = bad[n][0]
                    ob['id'] = t; ob['status'] = 'failed'; ob['diagnostic'] = d.rendered[:3000]; ob['failed_in'] = n
                elif ur.error: ob['status'] = 'undecided'; ob['why'] = ur.error
                else: ob['status'] = 'discharged'
                obligations.append(ob)
        # Verification is modular: a caller is proved against its callees' contracts, so ANY failed obligation in the unit
        # that is not itself an obligation of this property leaves this property's obligations unestablished (undecided).
        other = [d for d in ur.ver if not (d.clause is not None and d.clause.is_property and pid in d.clause.props()) and not (pid == 'C15' and serves_c15 and d.clause is None and implicit_tag(d))]
        if other:
            d0 = other[0]
            desc = (f'clause [{d0.clause.tag or "support"}] of {d0.clause.fn}' if d0.clause is not None else f'{d0.message} in {d0.fn} @{d0.primary_line}')
            for ob in obligations:
                if ob['unit'] == u.name and ob['status'] == 'discharged':
                    ob['status'] = 'undecided'
                    ob['why'] = f'another obligation of unit {u.name} failed, so contracts this proof relies on are not established: {desc}'
                    ob['diagnostic'] = d0.rendered[:1500]
        # "needs contract", not "bug": a failed obligation in a function that calls a function the contracts have never seen (present in the
        # extracted text, no entry in the .vc file, not in contracts/baseline.json) is undecided - the verifier knows nothing about the callee.
        newfns = new_uncontracted(u, ur.gen)
        if newfns:
            lines = ur.gen.text.split('\n')
            for ob in obligations:
                if ob['unit'] != u.name or ob['status'] != 'failed': continue
                fname = ob.get('failed_in') or ob['function']
                rng = [(a, b) for n, a, b in ur.gen.fn_ranges if n == fname]
                if not rng: continue
                body = '\n'.join(lines[rng[0][0] - 1:rng[0][1]])
                hit = [n for n in newfns if re.search(r'(?<![\w])%s\s*\(' % re.escape(n.split('::')[-1]), body) and n != fname]
                if hit:
                    ob['status'] = 'undecided'; ob['why'] = 'needs contract: ' + fname + ' calls ' + ', '.join(hit) + ', a function the contract file has no entry for (new helper); the failure says nothing about the property'
        if ur.twin_missing:
            for ob in obligations:
                if ob['unit'] == u.name and any(ob['function'] in t for t in ur.twin_missing):
                    ob['status'] = 'undecided'; ob['why'] = 'vacuity guard: assert(false) verified in ' + ','.join(ur.twin_missing)
    # known findings
    for ob in obligations:
        if ob['status'] != 'failed': continue
        kf = [k for k in known if k.get('status', 'open') == 'open' and k['property'] == pid and k['obligation'] in ob['tags'] + [ob['id']] and (k.get('function') in (None, ob['function'], ob.get('failed_in')))
              and (ob.get('finding_id') in (None, k['id']))]
        wr = witness_reproduces(kf[0]) if kf else False
        if kf and wr:
            ob['status'] = 'known-finding'; ob['finding'] = kf[0]['id']
            known_seen.append((kf[0], ob))
        elif kf and wr is None:
            # the replay binary could not be rebuilt against this tree: neither "the listed finding" nor "a different violation" is established
            ob['status'] = 'undecided'; ob['why'] = 'listed finding ' + kf[0]['id'] + ': its recorded witness could not be replayed (replay binary does not build against this tree)'
        else:
            if kf: ob['why'] = 'listed finding ' + kf[0]['id'] + ' but its recorded witness no longer reproduces: this is a different violation'
            violations.append(ob)
    for ob in obligations:
        if ob['status'] == 'undecided': undecided.append(ob)
    return {'obligations': obligations, 'violations': violations, 'undecided': undecided, 'known_seen': known_seen}


def witness_reproduces(k):
    """Run the recorded witness of a known finding against the real code (native replay binary)."""
    wc = k.get('witness_check')
    if not wc: return True
    from . import kani as K
    try:
        K.extract()
    except Unsupported:
        pass        # the ledger replay runs the real cgt-core only; the last generated extracted.rs is good enough to build the crate
    K._prepare()
    env = dict(os.environ, CARGO_NET_OFFLINE='true')
    b = subprocess.run(['cargo', 'build', '--offline', '--bin', 'cgt-verif-replay'], cwd=K.KDIR, capture_output=True, text=True, env=env, timeout=1800)
    if b.returncode != 0: return None
    exe = os.path.join(ROOT, 'build', 'kani-target', 'debug', 'cgt-verif-replay')
    wf = os.path.join(BUILD, 'witness-' + k['id'] + '.cgt'); open(wf, 'w').write(k['witness'])
    r = subprocess.run([exe, '--ledger', wf], capture_output=True, text=True, timeout=120)
    out = r.stdout + r.stderr
    k['_witness_output'] = out[-600:]
    return wc['expect'] in out


def _short(fn):
    return fn


def _in_extracted(n, gen):
    return any(n.startswith(p) for p in ('matcher', 'models', 'calculator', 'config', 'validation', 'cgt_money', 'schwab', 'cgt_format', 'error', 'ordering'))


def trusted_scan(gen_text):
    pats = ['external_body', 'assume_specification', 'uninterp spec fn', 'axiom fn', 'assume(', 'admit(', 'external_fn_specification', '#[verifier::external']
    out = {}
    for p in pats:
        out[p] = gen_text.count(p)
    return out


def write_evidence(pid, tier, seed, runs, dec, wall, kani=None):
    os.makedirs(EVID, exist_ok=True)
    obs = dec['obligations']
    # bounded stand-ins are reported on their own and never counted among the proved obligations
    bounded = [o for o in obs if 'BOUNDED' in o.get('backend', '')]
    obs_all = obs; obs = [o for o in obs if o not in bounded]
    n = sum(1 for o in obs if o['status'] != 'known-finding'); disch = sum(1 for o in obs if o['status'] == 'discharged')
    trusted = []
    fns = []
    hunks = {}
    cmds = []
    solver_s = 0.0
    twins = {'points': 0, 'failed_as_required': 0}
    for ur in runs:
        if ur.gen is None: continue
        ts = trusted_scan(ur.gen.text)
        trusted.append(f'unit {ur.unit.name}: ' + ', '.join(f'{k}={v}' for k, v in ts.items() if v))
        for r, b, a in ur.gen.log: hunks[r] = hunks.get(r, 0) + 1
        for f in ur.gen.functions:
            fns.append({'function': f, 'unit': ur.unit.name})
        cmds.append(ur.res.cmd)
        solver_s += ur.res.smt_ms / 1000.0
        twins['points'] += len(ur.twin_points); twins['failed_as_required'] += len(ur.twin_points) - len(ur.twin_missing)
    if kani:
        for k in kani:
            cmds.append(k['cmd']); solver_s += k.get('solver_s', 0)
    ev = {
        'property_id': pid, 'tier': tier, 'seed': seed, 'level': 'proof',
        'coverage': {
            'obligations': n, 'discharged': disch,
            'checker_cmd': ' ; '.join(cmds) if cmds else 'none',
            'trusted_base': trusted + TRUSTED_COMMON,
            'functions_under_contract': fns,
            'rewrite_hunks': hunks,
            'per_obligation': [{k: o.get(k) for k in ('id', 'tags', 'unit', 'function', 'kind', 'backend', 'status', 'why', 'finding', 'src') if o.get(k) is not None} for o in obs],
            'undischarged': [o['id'] + ' @ ' + o['function'] for o in obs if o['status'] != 'discharged'],
            'known_findings_seen': [{'id': k['id'], 'obligation': o['id'], 'function': o['function'], 'witness_reproduced_output': k.get('_witness_output', '')} for k, o in dec['known_seen']],
            'bounded_checks_not_counted_as_proved': [{'id': o['id'], 'harness': o['function'], 'bound_and_claim': o['clause'], 'backend': o['backend'], 'status': o['status']} for o in bounded],
            'reachability_twins': twins,
            'samples': [{'id': o['id'], 'function': o['function'], 'clause': o['clause']} for o in obs[:6]],
            'solver_time_s': round(solver_s, 2),
            'explanation': 'obligations = contract clauses tagged with this property (plus one implicit safety obligation per function for C15); each is discharged by the named back end on the text extracted from /repo on this run',
            'stability_runs': [s for ur in runs for s in getattr(ur, 'seeds', [])],
        },
        'assumptions': ASSUMPTIONS.get(pid, []) + ASSUMPTIONS_COMMON,
        'wall_s': round(wall, 2),
        'violations': len(dec['violations']),
    }
    json.dump(ev, open(os.path.join(EVID, pid + '.json'), 'w'), indent=1)
    return ev


TRUSTED_COMMON = [
    'Verus 0.2026.09.13 + Z3 (verifier soundness)',
    'extractor rewrite rules R0-R12 (auditable: build/<unit>.diff is regenerated on every run)',
    'shim/*.rs: Decimal as exact real (A-dec), NaiveDate as day number (A-date, axioms Kani-checked in K-chrono), HashMap as Map with unspecified iteration order (A-map), derived Clone is field-wise',
]
ASSUMPTIONS_COMMON = [
    'A-dec: rust_decimal arithmetic is treated as exact real arithmetic: 96-bit mantissa, 28-digit rounding of * and /, and overflow panics are not modelled',
    'A-ext: bodies never entered: pest/pest_consume parser, serde, format!/Display (message wording not decided), iso_currency, std::fs, clap, typst, tokio, rmcp',
    'spec functions in spec/*.rs are a faithful reading of the property text',
]
_A_FMT = 'A-fmt (units plain, format): format!/write!/writeln! are functions of their template pieces and arguments (shim/fmt.rs): a String built by format! is the concatenation of literal text, `{}` arguments as shown by Display and arguments under a format spec as an uninterpreted function of the shown text; a text written line by line is viewed as its sequence of records (the shown arguments of each writeln!, literal wording excluded); trailing white space / a final line feed do not change the records; str::split yields uninterpreted pieces; Vec::dedup an uninterpreted shorter sequence'
_A_PLAIN = 'cross-unit contracts used in unit plain without being re-proved there: Disposal::net_gain_or_loss / total_allowable_cost, TaxYearSummary::disposal_count / gross_proceeds / taxable_gain (proved in unit calc), round_gbp (proved in unit format); format_gbp, format_decimal_trimmed, format_date, format_price, format_currency_amount, format_tax_year are uninterpreted functions of the value shown'
ASSUMPTIONS = {'C16': [_A_FMT, _A_PLAIN], 'C17': [_A_FMT, _A_PLAIN], 'C15': [_A_FMT]}


def write_replay(pid, ob, runs):
    os.makedirs(REPLAY, exist_ok=True)
    h = hashlib.sha256((ob['id'] + ob['function'] + ob['clause']).encode()).hexdigest()[:10]
    p = os.path.join(REPLAY, f'{pid}-{ob["id"].replace(".", "_")}-{h}.json')
    json.dump({'property': pid, 'obligation': ob['id'], 'tags': ob['tags'], 'unit': ob['unit'], 'function': ob['function'], 'failed_in': ob.get('failed_in'),
               'kind': ob['kind'], 'clause': ob['clause'], 'backend': ob['backend'], 'verifier_output': ob.get('diagnostic', ''),
               'counterexample': ob.get('counterexample'), 'note': 'Verus gives no counterexample: no-failing-input-found' if ob['backend'].startswith('Verus') and not ob.get('counterexample') else ''}, open(p, 'w'), indent=1)
    return p


def check(pid, tier, seed):
    t0 = time.time()
    units = [u for u in load_units() if pid in unit_props(u)]
    from . import kani as K
    kunits = K.units_for(pid, tier)
    if not units and not kunits:
        print(f'no checks serve {pid}'); return 2
    known = load_known()
    with ThreadPoolExecutor(max_workers=8) as ex:
        futs = [ex.submit(run_unit, u, tier, pid) for u in units]
        kf = [ex.submit(K.run_unit, k, tier) for k in kunits]
        runs = [f.result() for f in futs]
        kruns = [f.result() for f in kf]
    dec = decide(pid, runs, known)
    kinfo = []
    for kr in kruns:
        K.merge(pid, kr, dec, known)
        kinfo.append({'cmd': kr['cmd'], 'solver_s': kr.get('solver_s', 0)})
    wall = time.time() - t0
    ev = write_evidence(pid, tier, seed, runs, dec, wall, kinfo)
    for k, ob in dec['known_seen']:
        print(f'KNOWN-FINDING: property={pid} {ob["id"]} in {ob["function"]}: {k["what"]}')
    rc = 0
    if dec['violations']:
        for ob in dec['violations']:
            rp = write_replay(pid, ob, runs)
            tail = '' if ob.get('counterexample') else ' no-failing-input-found'
            print(f'obligation {ob["id"]} ({ob["kind"]}) failed in {ob.get("failed_in") or ob["function"]} [{ob["backend"]}]: {ob["clause"][:160]}')
            print(f'VIOLATION property={pid} replay={rp}{tail}')
        rc = 1
    elif dec['undecided']:
        for o in dec['undecided'][:10]:
            print('UNDECIDED:', o.get('id', o.get('unit')), '-', o.get('why', '')[:300])
        rc = 2
    nb = [o for o in dec['obligations'] if 'BOUNDED' in o.get('backend', '')]
    n = len(dec['obligations']) - len(nb); d = sum(1 for o in dec['obligations'] if o['status'] == 'discharged' and o not in nb)
    bt = f' (+{sum(1 for o in nb if o["status"] == "discharged")}/{len(nb)} bounded checks passed, not counted as proved)' if nb else ''
    print(f'{pid}: {d}/{n} obligations discharged{bt}, {len(dec["violations"])} violations, {len(dec["known_seen"])} known findings, {len(dec["undecided"])} undecided, {wall:.1f}s')
    return rc


def dev(name, twin=False):
    os.makedirs(BUILD, exist_ok=True)
    u = U.parse_vc(os.path.join(ROOT, 'contracts', name + '.vc'))
    gen = U.build(u, BUILD, twin=twin)
    out = os.path.join(BUILD, name + ('_twin' if twin else '') + '.rs')
    open(out, 'w').write(gen.text)
    open(os.path.join(BUILD, name + '.diff'), 'w').write(gen.diff)
    extra = []
    for a in sys.argv:
        if a.startswith('--fn='): extra = ['--verify-function', a[5:]]
    r = V.run(out, extra=extra, rlimit=30)
    ver, unsup = V.classify(r.diags, gen)
    print(f'verus: verified={r.verified} errors={r.errors} wall={r.wall:.1f}s smt={r.smt_ms}ms results={r.have_results}')
    for d in unsup:
        print('UNSUPPORTED/COMPILE:', d.rendered[:1500])
    for d in ver:
        c = d.clause
        print(f'-- {d.kind} in {d.fn}: {d.message}' + (f'  => clause {c.id} [{c.tag or "support"}] {c.kind} of {c.fn} (vc line {c.src_line}): {c.text[:100]}' if c else ''))
        if not c or '-v' in sys.argv: print(d.rendered[:1200])
    if '--times' in sys.argv:
        for k, v in sorted(r.fn_details.items(), key=lambda kv: -kv[1]['ms'])[:15]: print(v['ms'], 'ms', k)
    return r


def replay(pid, path):
    j = json.load(open(path))
    print(f'replay {path}: obligation {j["obligation"]} in {j["function"]} ({j["backend"]})')
    if j.get('counterexample'):
        from . import kani as K
        rc = K.replay(j)
        if rc == 1: print(f'VIOLATION property={pid} replay={path}')
        return rc
    # Verus: re-run the unit and report whether the named obligation still fails
    units = [u for u in load_units() if u.name == j['unit']]
    ur = run_unit(units[0], 'quick', pid)
    dec = decide(pid, [ur], [])
    for ob in dec['obligations']:
        if ob['id'] == j['obligation'] and ob['function'] == j['function'] and ob['clause'] == j['clause']:
            print('status now:', ob['status'])
            if ob['status'] == 'failed':
                print(ob.get('diagnostic', '')[:2000])
                print(f'VIOLATION property={pid} replay={path} no-failing-input-found')
                return 1
            return 0 if ob['status'] == 'discharged' else 2
    print('obligation not found in current contracts'); return 2


def main():
    a = sys.argv[1:]
    if not a:
        print('usage: check <PID> [--tier quick|thorough] | --replay F | --dev <unit> | --setup'); return 2
    if a[0] == '--dev':
        dev(a[1], twin='--twin' in a); return 0
    if a[0] == '--setup':
        from . import kani as K
        return K.setup()
    pid = a[0]
    tier = os.environ.get('VERIF_TIER', 'quick')
    if '--tier' in a: tier = a[a.index('--tier') + 1]
    seed = int(os.environ.get('VERIF_SEED', '0') or 0)
    if '--replay' in a:
        return replay(pid, a[a.index('--replay') + 1])
    try:
        return check(pid, tier, seed)
    except Unsupported as e:
        print('UNDECIDED:', e); return 2


if __name__ == '__main__':
    sys.exit(main())
