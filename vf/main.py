import sys, os, json, time, re
from . import unit as U, verus as V
from .rules import Unsupported

ROOT = os.path.dirname(os.path.dirname(os.path.abspath(__file__)))
BUILD = os.path.join(ROOT, 'build')


def dev(name, twin=False):
    os.makedirs(BUILD, exist_ok=True)
    u = U.parse_vc(os.path.join(ROOT, 'contracts', name + '.vc'))
    gen = U.build(u, BUILD, twin=twin)
    out = os.path.join(BUILD, name + ('_twin' if twin else '') + '.rs')
    open(out, 'w').write(gen.text)
    open(os.path.join(BUILD, name + '.diff'), 'w').write(gen.diff)
    r = V.run(out)
    ver, unsup = V.classify(r.diags, gen)
    print(f'verus: verified={r.verified} errors={r.errors} wall={r.wall:.1f}s smt={r.smt_ms}ms results={r.have_results}')
    for d in unsup:
        print('UNSUPPORTED/COMPILE:', d.rendered[:1500])
    for d in ver:
        c = d.clause
        print(f'-- {d.kind} in {d.fn}: {d.message}' + (f'  => clause {c.id} [{c.tag or "support"}] {c.kind} of {c.fn}: {c.text[:100]}' if c else ''))
        if not c or '-v' in sys.argv: print(d.rendered[:1200])
    return r


def main():
    a = sys.argv[1:]
    if a and a[0] == '--dev':
        dev(a[1], twin='--twin' in a)
        return 0
    print('usage: check --dev <unit>')
    return 2

if __name__ == '__main__':
    sys.exit(main())
