"""Kani units (DESIGN 4.6): harness crate /verif/kani, expressions extracted from /repo on every run."""
import os, re, subprocess, time, json, shutil
from .scan import tokenize, code_toks, match_close, parse_items, find_fn
from .rules import Unsupported

ROOT = os.path.dirname(os.path.dirname(os.path.abspath(__file__)))
REPO = os.environ.get('VERIF_REPO', '/repo')
KDIR = os.path.join(ROOT, 'kani')

# harness -> (unit, [(obligation id, what)])
HARNESSES = {
    'k_taxyear_from_date': ('K-taxyear', [('C07.from_date', 'from_date(d) is Ok(Y) iff d in [6 Apr Y, 5 Apr Y+1] with Y in 1900..=2100, else Err; every representable date')]),
    'k_taxyear_new_and_bounds': ('K-taxyear', [('C07.new_bounds', 'TaxPeriod::new(y) Ok iff 1900<=y<=2100; start_date = 6 Apr y, end_date = 5 Apr y+1')]),
    'k_taxyear_window': ('K-taxyear', [('C07.window', 'start_date <= d <= end_date of its own year; the neighbouring days map to the neighbouring years')]),
    'k_filter_window_eq_from_date': ('K-filter', [('C07.filter_eq', 'single-year window of build_tax_year_summary selects d iff from_date(d) == Ok(y), y in 1900..=2100'),
                                                  ('C12.year_window', 'a disposal dated after 5 April y+1 never enters the single-year report of y (same harness as C07.filter_eq)')]),
    'k_explain_year_eq_from_date': ('K-explain', [('C07.explain_eq', 'MCP explain_matching year derivation equals TaxPeriod::from_date for every date')]),
    'k_chrono_ymd_roundtrip': ('K-chrono', [('A-date.ymd', 'axiom ax_ymd / from_ymd_opt contract on the real chrono')]),
    'k_chrono_april': ('K-chrono', [('A-date.apr', 'axiom ax_apr on the real chrono')]),
    'k_chrono_order': ('K-chrono', [('A-date.order', 'axiom ax_order and Sub/num_days sign on the real chrono')]),
    'k_chrono_succ': ('K-chrono', [('A-date.succ', 'num_days is additive along succ_opt')]),
    'k_chrono_sub_days': ('K-chrono', [('C19.day_arith', 'checked_sub_signed(days(k)), k in 1..=7, is the date k days earlier for every date')]),
    'k_chrono_sub_is_day_difference_bounded': ('K-chrono', [('A-date.sub', 'BOUNDED (years 1890..=2110): (a - b).num_days() is the difference of day numbers')]),
    'k_window_logic': ('K-window', [('C01.window_edges', 'the two day-difference tests of match_bed_and_breakfast accept exactly 1..=30 days (every i64)')]),
    'k_window_days_diff': ('K-chrono', [('C01.window_days', 'days_diff as computed in match_bed_and_breakfast equals k for the date k days after D, every D, k in -3..=35')]),
    'k_dec_round_scale3_bounded': ('K-decimal', [('A-dec.round3', 'BOUNDED (every i32 mantissa, scale 3): rust_decimal round_dp_with_strategy(2, MidpointAwayFromZero) == magnitude rounded half up, sign kept')]),
    'k_dec_round_scale4_bounded': ('K-decimal', [('A-dec.round4', 'BOUNDED (every i32 mantissa, scale 4): the same at four decimal places')]),
    'k_dec_round_le2_bounded': ('K-decimal', [('A-dec.round_id', 'BOUNDED (every i32 mantissa, scale 0..=2): a value with at most two decimal places is returned unchanged')]),
}
# harnesses that take minutes (two symbolic dates / date arithmetic): thorough tier only
SLOW = {'k_dec_round_scale3_bounded', 'k_dec_round_scale4_bounded', 'k_dec_round_le2_bounded', 'k_chrono_succ', 'k_chrono_order', 'k_chrono_sub_days', 'k_chrono_sub_is_day_difference_bounded', 'k_window_days_diff'}
# which harnesses decide / support which property
PROP_HARNESSES = {
    'C07': ['k_taxyear_from_date', 'k_taxyear_new_and_bounds', 'k_taxyear_window', 'k_filter_window_eq_from_date', 'k_explain_year_eq_from_date',
            'k_chrono_ymd_roundtrip', 'k_chrono_april', 'k_chrono_order'],
    'C01': ['k_window_logic', 'k_window_days_diff', 'k_chrono_order', 'k_chrono_succ', 'k_chrono_sub_is_day_difference_bounded'],
    'C12': ['k_window_logic', 'k_window_days_diff', 'k_filter_window_eq_from_date'],
    'C19': ['k_chrono_sub_days', 'k_chrono_order'],
    'C17': ['k_dec_round_scale3_bounded', 'k_dec_round_scale4_bounded', 'k_dec_round_le2_bounded'],
}


def units_for(pid, tier='quick'):
    hs = PROP_HARNESSES.get(pid, [])
    if tier != 'thorough': hs = [h for h in hs if h not in SLOW]
    return [hs] if hs else []


def skipped_for(pid, tier):
    return [h for h in PROP_HARNESSES.get(pid, []) if h in SLOW] if tier != 'thorough' else []


def _stmt(src, start_pat, what):
    m = re.search(start_pat, src)
    if not m: raise Unsupported(f'lost anchor: {what}')
    toks = tokenize(src[m.start():])
    ct = code_toks(toks)
    i = 0
    while i < len(ct):
        if ct[i].t in ('(', '[', '{'): i = match_close(ct, i)
        elif ct[i].t == ';': return src[m.start():m.start() + ct[i].e]
        i += 1
    raise Unsupported(f'lost anchor: end of {what}')


def _fn_text(path, fn_path):
    src = open(os.path.join(REPO, path)).read()
    items = parse_items(src)
    it = find_fn(items, fn_path)
    if it is None: raise Unsupported(f'lost anchor: fn {"::".join(fn_path)} in {path}')
    return src[it.start:it.end]


def extract():
    """Write kani/src/extracted.rs from the current /repo sources. Returns the text."""
    calc = _fn_text('crates/cgt-core/src/calculator.rs', ['build_tax_year_summary'])
    # everything the function computes before the filter (window bounds and any helper bindings), verbatim
    b0 = calc.index('{') + 1
    mk = re.search(r'let\s+year_matches\b', calc)
    if not mk: raise Unsupported('lost anchor: year_matches in build_tax_year_summary')
    prefix = calc[b0:mk.start()].strip()
    if 'start_date' not in prefix: raise Unsupported('lost anchor: start_date in build_tax_year_summary')
    m = re.search(r'\.filter\(\|(\w+)\|\s*(.*?)\)\s*\.cloned\(\)', calc, re.S)
    if not m: raise Unsupported('lost anchor: year filter closure in build_tax_year_summary')
    var, cond = m.group(1), m.group(2)
    cond = re.sub(r'\b%s\.disposal_date\b' % var, 'disposal_date', cond)
    if re.search(r'\b%s\b' % var, cond): raise Unsupported('year filter uses more than disposal_date')
    srv = open(os.path.join(REPO, 'crates/cgt-mcp/src/server.rs')).read()
    k = srv.find('fn explain_matching')
    if k < 0: raise Unsupported('lost anchor: explain_matching')
    s3 = _stmt(srv[k:], r'let\s+year\s*=', 'year derivation in explain_matching')
    bnb = open(os.path.join(REPO, 'crates/cgt-core/src/matcher/bed_and_breakfast.rs')).read()
    c0 = _stmt(bnb, r'const\s+BNB_WINDOW_DAYS', 'BNB_WINDOW_DAYS')
    fn = _fn_text('crates/cgt-core/src/matcher/bed_and_breakfast.rs', ['match_bed_and_breakfast'])
    # the day-difference binding, whatever it is called: `let <v>[: T] = ( .. ).num_days();`
    mv = re.search(r'let\s+(\w+)\s*(?::\s*[\w:]+\s*)?=\s*\([^;]*\)\s*\.num_days\(\)\s*;', fn)
    if not mv: raise Unsupported('lost anchor: day-difference binding (.num_days()) in match_bed_and_breakfast')
    dv = mv.group(1)
    s4 = _stmt(fn, r'let\s+%s\s*(?::\s*[\w:]+\s*)?=' % dv, 'day-difference binding in match_bed_and_breakfast')
    s4 = re.sub(r'\bsell_tx\.date\b', 'sell_date', re.sub(r'(?<![\w.])tx\.date\b', 'tx_date', s4))
    mc = re.search(r'if\s+([^{}]*\b%s\b[^{}]*)\{\s*continue;\s*\}' % dv, fn)
    mb = re.search(r'if\s+([^{}]*\b%s\b[^{}]*)\{\s*break;\s*\}' % dv, fn)
    if not mc or not mb: raise Unsupported('lost anchor: day-difference tests in match_bed_and_breakfast')
    for cnd in (mc.group(1), mb.group(1)):
        if re.sub(r'\b(%s|BNB_WINDOW_DAYS|\d+)\b' % dv, '', cnd).strip(' <>=!()') != '': raise Unsupported('day-difference test uses more than the difference and the window constant: ' + cnd.strip())
    out = f'''// GENERATED from /repo on every run by vf/kani.py -- expressions copied verbatim (rule R0 only)
#![allow(unused_parens)]
use cgt_core::{{CgtError, TaxPeriod}};
use chrono::{{Datelike, NaiveDate}};

// crates/cgt-core/src/calculator.rs build_tax_year_summary: the two window bounds and the filter predicate
pub fn year_window(tax_year_start: i32, disposal_date: NaiveDate) -> Result<bool, CgtError> {{
    {prefix}
    Ok({cond.strip()})
}}

// crates/cgt-mcp/src/server.rs explain_matching: `let year = ...;`
pub fn explain_year(date: NaiveDate) -> i32 {{
    {s3}
    year
}}

// crates/cgt-core/src/matcher/bed_and_breakfast.rs
{c0}
pub fn bnb_days_diff(tx_date: NaiveDate, sell_date: NaiveDate) -> i64 {{
    {s4}
    {dv}
}}
pub fn bnb_not_after({dv}: i64) -> bool {{ {mc.group(1).strip()} }}
pub fn bnb_beyond_window({dv}: i64) -> bool {{ {mb.group(1).strip()} }}
'''
    p = os.path.join(KDIR, 'src', 'extracted.rs')
    old = open(p).read() if os.path.exists(p) else ''
    if old != out: open(p, 'w').write(out)
    return out


def _prepare():
    shutil.copyfile(os.path.join(REPO, 'Cargo.lock'), os.path.join(KDIR, 'Cargo.lock'))
    # point the path dependency at the repo under check
    ct = open(os.path.join(KDIR, 'Cargo.toml')).read()
    ct2 = re.sub(r'cgt-core = \{ path = "[^"]*" \}', 'cgt-core = { path = "%s/crates/cgt-core" }' % REPO, ct)
    if ct2 != ct: open(os.path.join(KDIR, 'Cargo.toml'), 'w').write(ct2)


def kani_cmd(harnesses, playback=False):
    cmd = ['cargo', 'kani', '--output-format', 'terse']
    for h in harnesses: cmd += ['--harness', h]
    if len(harnesses) > 1: cmd += ['-j', str(min(8, len(harnesses)))]
    if playback: cmd += ['-Z', 'concrete-playback', '--concrete-playback=print']
    return cmd


def run_unit(harnesses, tier):
    res = _run_unit(harnesses, tier)
    # every harness asked for appears in the result, so that its obligations are reported as undecided (never silently dropped) on an error path
    for h in harnesses:
        res['harnesses'].setdefault(h, {'ok': False, 'failed': False, 'failed_checks': [], 'cover': None, 'time': 0, 'text': res.get('error') or '', 'missing': True})
    res.setdefault('solver_s', 0)
    return res


def _run_unit(harnesses, tier):
    t0 = time.time()
    res = {'harnesses': {}, 'cmd': 'cd /verif/kani && ' + ' '.join(kani_cmd(harnesses)), 'error': None, 'extracted': None}
    try:
        res['extracted'] = extract()
        _prepare()
    except Unsupported as e:
        res['error'] = 'extraction: ' + str(e); return res
    env = dict(os.environ, CARGO_NET_OFFLINE='true')
    try:
        p = subprocess.run(kani_cmd(harnesses), cwd=KDIR, capture_output=True, text=True, timeout=3000, env=env)
        out = p.stdout + '\n' + p.stderr
    except subprocess.TimeoutExpired as e:
        res['error'] = 'kani timed out'; return res
    res['raw'] = out[-20000:]
    # parse per-harness (sequential and -j output formats)
    cur = {}          # thread -> harness
    blocks = {}       # harness -> text
    active = None
    for line in out.split('\n'):
        m = re.match(r'^(?:Thread (\d+): )?Checking harness (\S+?)\.\.\.', line)
        if m:
            name = m.group(2).split('::')[-1]
            cur[m.group(1) or '-'] = name
            if m.group(1) is None: active = name
            blocks.setdefault(name, '')
            continue
        m = re.match(r'^Thread (\d+):\s*$', line)
        if m:
            active = cur.get(m.group(1)); continue
        if active: blocks[active] = blocks.get(active, '') + line + '\n'
    for name, b in blocks.items():
        ok = 'VERIFICATION:- SUCCESSFUL' in b
        fail = 'VERIFICATION:- FAILED' in b
        failed_checks = re.findall(r'Failed Checks: (.*)', b)
        cover = re.findall(r'(\d+) of (\d+) cover properties satisfied', b)
        tm = re.search(r'Verification Time: ([0-9.]+)s', b)
        if not ok and not fail: continue
        res['harnesses'][name] = {'ok': ok and not fail, 'failed': fail, 'failed_checks': failed_checks, 'cover': cover[0] if cover else None,
                                  'time': float(tm.group(1)) if tm else 0.0, 'text': b[-3000:]}
    for h in harnesses:
        if h not in res['harnesses']:
            res['harnesses'][h] = {'ok': False, 'failed': False, 'failed_checks': [], 'cover': None, 'time': 0, 'text': out[-3000:], 'missing': True}
    if any(v.get('missing') for v in res['harnesses'].values()) and not res['error']:
        res['error'] = 'kani did not report every harness (build error?): ' + out[-1500:]
    # counterexamples for failed harnesses
    for h, v in res['harnesses'].items():
        if v['failed']:
            try:
                pp = subprocess.run(kani_cmd([h], playback=True), cwd=KDIR, capture_output=True, text=True, timeout=1200, env=env)
                v['playback'] = _parse_playback(pp.stdout + pp.stderr)
                if v['playback']:
                    rep, rout = native_replay(h, v['playback']['values'])
                    v['playback']['reproduced_on_real_code'] = rep; v['playback']['replay_output'] = rout
            except Exception as e:
                v['playback'] = None
    res['solver_s'] = sum(v['time'] for v in res['harnesses'].values())
    res['wall'] = time.time() - t0
    return res


def _parse_playback(out):
    """Pick the generated playback test of a failed assertion (not of a cover property) and read its values."""
    blocks = re.findall(r'```\s*(.*?)```', out, re.S)
    best = None
    for b in blocks:
        m = re.search(r'Check for `(\w+)`', b)
        kind = m.group(1) if m else ''
        vals = [int(x) for x in re.findall(r'//\s*(-?\d+)\s*\n\s*vec!\[', b)]
        if not vals: continue
        if kind != 'cover':
            best = {'test': b.strip()[:4000], 'values': vals, 'check': kind}; break
        if best is None: best = {'test': b.strip()[:4000], 'values': vals, 'check': kind}
    return best


def native_replay(harness, values):
    """Run the harness body natively on the real code with concrete inputs. Returns (reproduced, output)."""
    env = dict(os.environ, CARGO_NET_OFFLINE='true')
    b = subprocess.run(['cargo', 'build', '--offline', '--bin', 'cgt-verif-replay'], cwd=KDIR, capture_output=True, text=True, env=env, timeout=1800)
    if b.returncode != 0: return None, 'replay binary did not build: ' + b.stderr[-800:]
    exe = os.path.join(ROOT, 'build', 'kani-target', 'debug', 'cgt-verif-replay')
    r = subprocess.run([exe, harness] + [str(v) for v in values], capture_output=True, text=True, timeout=120)
    out = (r.stdout + r.stderr)[-1500:]
    if 'ASSUMPTION-VIOLATED' in out: return None, 'inputs violate the harness assumptions: ' + out
    return (r.returncode != 0), out


def merge(pid, kr, dec, known):
    """Add the Kani obligations of property pid to the decision."""
    for h, v in kr['harnesses'].items():
        unit, obs = HARNESSES[h]
        for oid, what in obs:
            is_prop = oid.split('.')[0] == pid
            ob = {'id': oid, 'tags': [oid], 'unit': unit, 'function': 'kani harness ' + h, 'kind': 'kani-proof', 'clause': what,
                  'backend': 'Kani-CBMC (BOUNDED stand-in, not counted as proved: see clause)' if 'BOUNDED' in what else 'Kani-CBMC (loop-free, complete over all representable dates)'}
            if kr['error']:
                ob['status'] = 'undecided'; ob['why'] = kr['error']
            elif v['ok']:
                cv = v.get('cover')
                if cv and cv[0] != cv[1]:
                    ob['status'] = 'undecided'; ob['why'] = f'vacuity guard: only {cv[0]} of {cv[1]} cover properties reachable'
                else: ob['status'] = 'discharged'
            elif v['failed']:
                ob['status'] = 'failed'
                ob['diagnostic'] = '\n'.join(v['failed_checks']) + '\n' + v['text'][-1500:]
                pb = v.get('playback')
                if pb and pb.get('values'):
                    ob['counterexample'] = {'harness': h, 'values': pb['values'], 'playback_test': pb['test'],
                                            'reproduced_on_real_code': pb.get('reproduced_on_real_code'), 'replay_output': pb.get('replay_output')}
                    if pb.get('reproduced_on_real_code') is False:
                        ob['status'] = 'undecided'; ob['why'] = 'Kani counterexample did not reproduce on the real code natively'
                ob['failed_in'] = 'kani harness ' + h
            else:
                ob['status'] = 'undecided'; ob['why'] = 'kani gave no verdict'
            if not is_prop:
                # an imported axiom / lemma: failing makes the dependants undecided, not violated
                if ob['status'] == 'failed':
                    ob['status'] = 'undecided'; ob['why'] = 'assumed date axiom refuted by Kani: ' + oid
                ob['kind'] = 'kani-axiom-check'
            dec['obligations'].append(ob)
            if ob['status'] == 'failed':
                kf = [k for k in known if k.get('status', 'open') == 'open' and k['property'] == pid and k['obligation'] == oid]
                if kf:
                    ob['status'] = 'known-finding'; dec['known_seen'].append((kf[0], ob))
                else: dec['violations'].append(ob)
            elif ob['status'] == 'undecided':
                dec['undecided'].append(ob)


def setup():
    """Pre-build the harness crate so that later runs are incremental."""
    try:
        extract(); _prepare()
    except Unsupported as e:
        print('setup: extraction failed:', e); return 2
    env = dict(os.environ, CARGO_NET_OFFLINE='true')
    p = subprocess.run(kani_cmd(['k_chrono_april']), cwd=KDIR, env=env)
    # warm the verus cache
    subprocess.run(['verus', '--version'])
    return 0 if p.returncode == 0 else 1


def replay(j):
    """Re-run a Kani counterexample against the real code (native build of the same harness body)."""
    ce = j['counterexample']
    try:
        extract(); _prepare()
    except Unsupported as e:
        print('UNDECIDED: extraction failed:', e); return 2
    rep, out = native_replay(ce['harness'], ce['values'])
    print('harness', ce['harness'], 'inputs (kani::any order):', ce['values'])
    print(out)
    if rep is None: print('UNDECIDED: replay could not run'); return 2
    if rep:
        print(f"VIOLATION property={j['property']} replay=<this file> (assertion fails on the real code with these inputs)"); return 1
    print('not reproduced on the current tree'); return 0
