"""Lexical helpers for Rust source text (no parsing beyond token nesting).

Everything in the extractor works on token streams so that braces inside strings,
chars, comments and lifetimes never confuse it.
"""
import re

IDENT = re.compile(r'[A-Za-z_][A-Za-z0-9_]*')
NUM = re.compile(r'[0-9][0-9A-Za-z_.]*')


class Tok:
    __slots__ = ('k', 't', 's', 'e')

    def __init__(self, k, t, s, e):
        self.k, self.t, self.s, self.e = k, t, s, e

    def __repr__(self):
        return f'{self.k}:{self.t!r}@{self.s}'


def tokenize(src):
    """Return a list of Tok. kinds: ws, comment, str, char, life, id, num, p"""
    out = []
    i, n = 0, len(src)
    while i < n:
        c = src[i]
        if c.isspace():
            j = i + 1
            while j < n and src[j].isspace():
                j += 1
            out.append(Tok('ws', src[i:j], i, j)); i = j; continue
        if src.startswith('//', i):
            j = src.find('\n', i)
            if j < 0: j = n
            out.append(Tok('comment', src[i:j], i, j)); i = j; continue
        if src.startswith('/*', i):
            depth, j = 1, i + 2
            while j < n and depth:
                if src.startswith('/*', j): depth += 1; j += 2
                elif src.startswith('*/', j): depth -= 1; j += 2
                else: j += 1
            out.append(Tok('comment', src[i:j], i, j)); i = j; continue
        # raw strings r"..", r#".."#, br".."
        m = re.match(r'b?r(#*)"', src[i:i + 40])
        if m:
            hashes = m.group(1)
            end = '"' + hashes
            j = src.find(end, i + m.end())
            j = n if j < 0 else j + len(end)
            out.append(Tok('str', src[i:j], i, j)); i = j; continue
        if c == '"' or (c == 'b' and i + 1 < n and src[i + 1] == '"'):
            j = i + (2 if c == 'b' else 1)
            while j < n:
                if src[j] == '\\': j += 2; continue
                if src[j] == '"': j += 1; break
                j += 1
            out.append(Tok('str', src[i:j], i, j)); i = j; continue
        if c == "'":
            # char literal or lifetime
            m = re.match(r"'(\\.[^']*|[^'\\])'", src[i:i + 12])
            if m:
                j = i + m.end()
                out.append(Tok('char', src[i:j], i, j)); i = j; continue
            m = IDENT.match(src, i + 1)
            if m:
                out.append(Tok('life', src[i:m.end()], i, m.end())); i = m.end(); continue
            out.append(Tok('p', c, i, i + 1)); i += 1; continue
        m = IDENT.match(src, i)
        if m:
            out.append(Tok('id', m.group(0), i, m.end())); i = m.end(); continue
        m = NUM.match(src, i)
        if m:
            # do not swallow a method call on a literal or a range `0..n`
            t = m.group(0)
            k = t.find('..')
            if k >= 0: t = t[:k]
            mm = re.match(r'[0-9][0-9_]*(\.[0-9][0-9_]*)?([eE][+-]?[0-9]+)?([A-Za-z][A-Za-z0-9_]*)?', t)
            t = mm.group(0) if mm else t
            out.append(Tok('num', t, i, i + len(t))); i += len(t); continue
        out.append(Tok('p', c, i, i + 1)); i += 1
    return out


OPEN = {'(': ')', '[': ']', '{': '}'}
CLOSE = {v: k for k, v in OPEN.items()}


def code_toks(toks):
    return [t for t in toks if t.k not in ('ws', 'comment')]


def match_close(toks, i):
    """toks[i] is an opening bracket token; return index of its closing token."""
    depth = 0
    j = i
    while j < len(toks):
        t = toks[j]
        if t.k == 'p':
            if t.t in OPEN: depth += 1
            elif t.t in CLOSE:
                depth -= 1
                if depth == 0: return j
        j += 1
    raise ValueError('unbalanced bracket at %d' % toks[i].s)


def match_open(toks, i):
    """toks[i] is a closing bracket; return index of its opening token."""
    depth = 0
    j = i
    while j >= 0:
        t = toks[j]
        if t.k == 'p':
            if t.t in CLOSE: depth += 1
            elif t.t in OPEN:
                depth -= 1
                if depth == 0: return j
        j -= 1
    raise ValueError('unbalanced bracket at %d' % toks[i].s)


def find_close_pos(src, open_pos):
    """Character position just after the bracket matching src[open_pos]."""
    toks = [t for t in tokenize(src[open_pos:])]
    j = match_close(toks, 0)
    return open_pos + toks[j].e


def line_of(src, pos):
    return src.count('\n', 0, pos) + 1


class Item:
    """A Rust item located in a source text."""

    def __init__(self, kind, name, start, end, attrs_start, body_open=None, impl_of=None, trait=None):
        self.kind, self.name = kind, name
        self.start, self.end = start, end            # from first token (after attrs) to end
        self.attrs_start = attrs_start               # including attributes / doc comments
        self.body_open = body_open                   # char pos of '{' of body (fn/impl/mod)
        self.impl_of = impl_of
        self.trait = trait
        self.children = []

    def __repr__(self):
        return f'<{self.kind} {self.name} {self.start}-{self.end}>'


ITEM_KW = {'fn', 'struct', 'enum', 'impl', 'mod', 'trait', 'const', 'static', 'type', 'use', 'union', 'macro_rules', 'extern'}
QUALS = {'pub', 'unsafe', 'async', 'default', 'crate', 'super', 'in', 'self', 'open', 'closed', 'spec', 'proof', 'exec', 'broadcast', 'uninterp', 'axiom', 'tracked', 'ghost'}


def parse_items(src, base=0, limit=None):
    """Parse the items of a module-level (or impl-level) text region src[base:limit]."""
    if limit is None: limit = len(src)
    toks = tokenize(src[base:limit])
    for t in toks:
        t.s += base; t.e += base
    ct = code_toks(toks)
    items = []
    i = 0
    n = len(ct)
    while i < n:
        attrs_start = ct[i].s
        # attributes
        while i < n and ct[i].k == 'p' and ct[i].t == '#':
            j = i + 1
            if j < n and ct[j].t == '!': j += 1
            if j < n and ct[j].t == '[':
                i = match_close(ct, j) + 1
            else:
                i = j
        if i >= n: break
        # doc comments are comments (dropped from ct); find attrs_start including preceding comments
        start_tok = i
        # qualifiers
        j = i
        while j < n and ct[j].k == 'id' and ct[j].t in QUALS or (j < n and ct[j].t == '(' and j > i and ct[j - 1].t == 'pub'):
            if ct[j].t == '(':
                j = match_close(ct, j) + 1
            else:
                j += 1
        if j < n and ct[j].k == 'str' and j > 0 and ct[j - 1].t == 'extern':
            j += 1
        if j >= n: break
        kw = ct[j]
        if kw.k != 'id' or kw.t not in ITEM_KW:
            # not an item (e.g. macro invocation at module level): skip to next ';' or balanced block
            k = j
            while k < n and ct[k].t not in (';', '{'):
                if ct[k].t in ('(', '['): k = match_close(ct, k)
                k += 1
            if k < n and ct[k].t == '{': k = match_close(ct, k)
            i = k + 1
            continue
        kind = kw.t
        name = None
        impl_of = trait = None
        k = j + 1
        if kind in ('fn', 'struct', 'enum', 'mod', 'trait', 'const', 'static', 'type', 'union'):
            if k < n and ct[k].k == 'id':
                name = ct[k].t
                if kind in ('const', 'static') and name == 'mut' and k + 1 < n: name = ct[k + 1].t
        if kind == 'impl':
            # impl<...> [Trait for] Type<...> [where ...] {
            kk = k
            if kk < n and ct[kk].t == '<':
                kk = skip_angles(ct, kk)
            hdr_start = kk
            while kk < n and ct[kk].t != '{':
                if ct[kk].t in ('(', '['): kk = match_close(ct, kk)
                kk += 1
            hdr = ct[hdr_start:kk]
            # split on `for` at angle depth 0
            depth = 0; split = None
            for q, t in enumerate(hdr):
                if t.t == '<': depth += 1
                elif t.t == '>' and q > 0 and hdr[q - 1].t != '-': depth -= 1
                elif t.k == 'id' and t.t == 'for' and depth == 0: split = q
                elif t.k == 'id' and t.t == 'where' and depth == 0:
                    hdr = hdr[:q]; break
            if split is not None:
                trait = ''.join(t.t for t in hdr[:split])
                ty = hdr[split + 1:]
            else:
                ty = hdr
            impl_of = ''.join(t.t for t in ty)
            name = impl_of
        # find end: ';' or body block at depth 0
        k = j + 1
        body_open = None
        while k < n:
            t = ct[k]
            if t.t in ('(', '['):
                k = match_close(ct, k) + 1; continue
            if t.t == '{':
                body_open = t.s
                k = match_close(ct, k); break
            if t.t == ';': break
            k += 1
        if k >= n: k = n - 1
        end = ct[k].e
        it = Item(kind, name, ct[start_tok].s, end, attrs_start, body_open, impl_of, trait)
        if kind in ('impl', 'mod', 'trait') and body_open is not None:
            it.children = parse_items(src, body_open + 1, end - 1)
        items.append(it)
        i = k + 1
    return items


def skip_angles(ct, i):
    """ct[i] is '<'; return index after the matching '>' (handles -> and nested)."""
    depth = 0
    j = i
    while j < len(ct):
        t = ct[j]
        if t.t == '<': depth += 1
        elif t.t == '>' and not (j > 0 and ct[j - 1].t == '-' and ct[j - 1].e == t.s):
            depth -= 1
            if depth == 0: return j + 1
        elif t.t in ('(', '['):
            j = match_close(ct, j)
        j += 1
    return j


def impl_base_name(impl_of):
    """`AcquisitionLedger`, `Operation<CurrencyAmount>` -> base ident."""
    m = IDENT.match(impl_of.lstrip('&'))
    return m.group(0) if m else impl_of


def find_fn(items, path):
    """path: list like ['AcquisitionLot','available'] or ['compute_proceeds'] (module-relative).
    A type segment may be written `Type` or `Trait for Type`. Returns Item or None."""
    if len(path) == 1:
        for it in items:
            if it.kind == 'fn' and it.name == path[0]: return it
        return None
    head = path[0]
    want_trait = None
    if ' for ' in head:
        want_trait, head = [x.strip() for x in head.split(' for ')]
    for it in items:
        if it.kind == 'impl':
            full = it.impl_of
            if (impl_base_name(full) == head or full == head):
                if want_trait is not None and (it.trait or '').split('<')[0].split('::')[-1] != want_trait: continue
                if want_trait is None and it.trait is not None and len(path) == 2:
                    # allow trait impls only when asked explicitly, but fall through if no inherent match
                    pass
                r = find_fn(it.children, path[1:])
                if r is not None:
                    if want_trait is None and it.trait is not None:
                        # prefer inherent impls
                        fallback = r
                        continue
                    return r
        if it.kind in ('mod', 'trait') and it.name == head:
            r = find_fn(it.children, path[1:])
            if r is not None: return r
    return locals().get('fallback')
