"""Rewrite rules R0..R12 (DESIGN 4.2). Each rule is a function text -> (text, [(rule, before, after)]).

Rules are generic (never keyed to a call site) and purely syntactic.  Every
application is logged so that the per-run diff shows what was changed and why.
A rule whose pattern half-matches raises Unsupported (-> exit 2, never an alarm).
"""
import re
from .scan import tokenize, code_toks, match_close, match_open, OPEN, CLOSE


class Unsupported(Exception):
    pass


class Ctx:
    def __init__(self):
        self.log = []          # (rule, before, after)
        self.counter = 0

    def fresh(self, base):
        self.counter += 1
        return f'__{base}{self.counter}'


# ---------------------------------------------------------------- helpers

def _ct(src):
    return code_toks(tokenize(src))


def _idx_of(ct, pos):
    for i, t in enumerate(ct):
        if t.s == pos: return i
    return None


def recv_start(ct, i):
    """ct[i] is the last token of a receiver expression; return index of its first token."""
    j = i
    while True:
        t = ct[j]
        if t.k == 'p' and t.t in (')', ']'):
            j = match_open(ct, j)
            # call or index: preceded by ident / ')' / ']' -> keep walking
            if j > 0 and (ct[j - 1].k == 'id' or ct[j - 1].t in (')', ']')) and ct[j - 1].t not in KEYWORDS:
                j -= 1
                continue
            break
        if t.k in ('id', 'num'):
            if j > 0 and ct[j - 1].t == '.' and not (j > 1 and ct[j - 2].t == '.'):
                j -= 2; continue
            if j > 1 and ct[j - 1].t == ':' and ct[j - 2].t == ':':
                j -= 3; continue
            break
        break
    # unary prefixes
    while j > 0 and ct[j - 1].k == 'p' and ct[j - 1].t in ('&', '*') and (j < 2 or ct[j - 2].k == 'p' and ct[j - 2].t not in (')', ']')):
        if ct[j - 1].t == '&' and j >= 2 and ct[j - 2].t == '&' and ct[j - 2].e == ct[j - 1].s: break   # `a && x.f()`: the logical operator, not a reference
        j -= 1
    return j


KEYWORDS = {'if', 'while', 'for', 'in', 'match', 'return', 'let', 'else', 'loop', 'break', 'continue', 'mut', 'ref', 'move', 'as'}


def parse_chain(ct, i):
    """ct[i] is '.', start of `.name(args)` / `.name::<T>(args)` sequence.
    Returns (segments, next_index) with segments = [(name, args_text_tokens_range(lo,hi), turbofish)]"""
    segs = []
    while i + 1 < len(ct) and ct[i].t == '.' and ct[i + 1].k == 'id':
        name = ct[i + 1].t
        j = i + 2
        turbo = None
        if j + 2 < len(ct) and ct[j].t == ':' and ct[j + 1].t == ':' and ct[j + 2].t == '<':
            depth = 0; k = j + 2
            while k < len(ct):
                if ct[k].t == '<': depth += 1
                elif ct[k].t == '>':
                    depth -= 1
                    if depth == 0: break
                k += 1
            turbo = (ct[j].s, ct[k].e)
            j = k + 1
        if j < len(ct) and ct[j].t == '(':
            c = match_close(ct, j)
            segs.append((name, (j, c), turbo, i))
            i = c + 1
        else:
            break
    return segs, i


def closure_parts(src, ct, lo, hi):
    """tokens lo..hi are '(' ... ')' of a call with one closure argument `|p| body`.
    Returns (param_text, body_text)."""
    a = lo + 1
    if ct[a].t == 'move': a += 1
    if ct[a].t != '|': return None
    b = a + 1
    while ct[b].t != '|':
        if ct[b].t in OPEN: b = match_close(ct, b)
        b += 1
    param = src[ct[a].e:ct[b].s].strip()
    body = src[ct[b].e:ct[hi].s].strip()
    if body.endswith(','): body = body[:-1].rstrip()
    return param, body


def apply_edits(src, edits):
    edits = sorted(edits, key=lambda e: e[0])
    out = []; pos = 0
    for s, e, new in edits:
        if s < pos: raise Unsupported('overlapping rewrites')
        out.append(src[pos:s]); out.append(new); pos = e
    out.append(src[pos:])
    return ''.join(out)


def _stmt_is_tail_of_block(ct, end_idx):
    """True when the token after end_idx closes a block (expression is a tail expression)."""
    return end_idx + 1 < len(ct) and ct[end_idx + 1].t == '}'


# ---------------------------------------------------------------- R0 strip

EXTERNAL_USE = re.compile(r'^\s*(pub\s+)?use\s+(chrono|rust_decimal|rust_decimal_macros|std|core|alloc|serde|serde_json|schemars|thiserror|iso_currency|quick_xml|pest|pest_consume|pest_derive|toml|include_dir|rmcp|tokio|clap|anyhow)\b')


def r0_strip(src, ctx, crate_aliases=()):
    """Remove attributes, inner doc comments, external `use` lines, cfg(test) items."""
    toks = tokenize(src)
    ct = code_toks(toks)
    edits = []
    i = 0
    while i < len(ct):
        t = ct[i]
        if t.k == 'p' and t.t == '#' and i + 1 < len(ct) and ct[i + 1].t in ('[', '!'):
            j = i + 1
            if ct[j].t == '!': j += 1
            if ct[j].t != '[': i += 1; continue
            c = match_close(ct, j)
            text = src[t.s:ct[c].e]
            if re.match(r'#\[cfg\(test\)\]', text.replace(' ', '')):
                # drop the following item entirely
                k = c + 1
                while k < len(ct) and ct[k].t == '#':   # further attrs
                    k = match_close(ct, k + 1) + 1
                while k < len(ct) and ct[k].t not in (';', '{'):
                    if ct[k].t in ('(', '['): k = match_close(ct, k)
                    k += 1
                if k < len(ct) and ct[k].t == '{': k = match_close(ct, k)
                edits.append((t.s, ct[k].e, ''))
                ctx.log.append(('R0', text + ' <item>', ''))
                i = k + 1; continue
            if text.startswith('#[verifier') or text.startswith('#[derive'):
                i = c + 1; continue
            edits.append((t.s, ct[c].e, ''))
            ctx.log.append(('R0', text, ''))
            i = c + 1; continue
        i += 1
    src = apply_edits(src, edits)
    out = []
    for line in src.split('\n'):
        if line.lstrip().startswith('//!'):
            ctx.log.append(('R0', line.strip(), '')); continue
        if EXTERNAL_USE.match(line) and line.rstrip().endswith(';'):
            ctx.log.append(('R0', line.strip(), '')); continue
        m = re.match(r'^(\s*)(pub\s+)?use\s+(cgt_money|cgt_core|cgt_format)\b(.*)$', line)
        if m:
            new = f'{m.group(1)}{m.group(2) or ""}use crate::{m.group(3)}{m.group(4)}'
            ctx.log.append(('R0', line.strip(), new.strip())); out.append(new); continue
        if re.match(r'^\s*(pub(\([a-z]+\))?\s+)?mod\s+\w+;\s*$', line):
            ctx.log.append(('R0', line.strip(), '')); continue
        out.append(line)
    src = '\n'.join(out)
    # multi-line external use statements
    def drop_multi(m):
        ctx.log.append(('R0', re.sub(r'\s+', ' ', m.group(0)).strip(), ''))
        return ''
    src = re.sub(r'(?m)^\s*(pub\s+)?use\s+(chrono|rust_decimal|std|core|serde|schemars|iso_currency|quick_xml)\b[^;]*;\s*$', drop_multi, src)
    return src


# ---------------------------------------------------------------- R1 derive

def r1_derive(src, ctx, default_body=True):
    """#[derive(..)] -> dropped; Clone/Copy/Default/PartialEq impls generated after the item."""
    ct = _ct(src)
    edits = []
    i = 0
    while i < len(ct):
        t = ct[i]
        if t.t == '#' and i + 2 < len(ct) and ct[i + 1].t == '[' and ct[i + 2].t == 'derive':
            c = match_close(ct, i + 1)
            derives = [x.t for x in ct[i + 4:c - 1] if x.k == 'id']
            # the item that follows
            k = c + 1
            while k < len(ct) and ct[k].t == '#': k = match_close(ct, k + 1) + 1
            q = k
            while ct[q].t in ('pub', 'crate') or ct[q].t == '(':
                q = match_close(ct, q) + 1 if ct[q].t == '(' else q + 1
            kind = ct[q].t; name = ct[q + 1].t
            g = q + 2
            generics = ''
            if ct[g].t == '<':
                depth = 0; h = g
                while True:
                    if ct[h].t == '<': depth += 1
                    elif ct[h].t == '>':
                        depth -= 1
                        if depth == 0: break
                    h += 1
                generics = src[ct[g].s:ct[h].e]
                g = h + 1
            b = g
            while ct[b].t not in ('{', ';', '('): b += 1
            if ct[b].t == '(':          # tuple struct
                bc = match_close(ct, b)
                e = bc + 1
                while ct[e].t != ';': e += 1
                item_end = ct[e].e
                fields = None
            elif ct[b].t == '{':
                bc = match_close(ct, b)
                item_end = ct[bc].e
                fields = []
                if kind == 'struct':
                    depth = 0; z = b + 1; start = True
                    while z < bc:
                        tt = ct[z]
                        if tt.t in OPEN: z = match_close(ct, z) + 1; continue
                        if tt.t == '<': depth += 1
                        elif tt.t == '>': depth -= 1
                        if start and tt.k == 'id' and tt.t not in ('pub', 'crate') and ct[z + 1].t == ':' and ct[z + 2].t != ':':
                            fields.append(tt.t); start = False
                        if tt.t == ',' and depth == 0: start = True
                        z += 1
            else:
                item_end = ct[b].e; fields = []
            params = []
            if generics:
                inner = generics[1:-1]
                for part in inner.split(','):
                    p = part.strip()
                    if p and not p.startswith("'"):
                        params.append((p.split(':')[0].strip(), p))
            def impl_hdr(trait, extra_bound):
                if not params:
                    return f'impl {trait} for {name}'
                gp = ', '.join((p if ':' in p else n + ':') + (f' + {extra_bound}' if ':' in p else f' {extra_bound}') for n, p in params)
                ga = ', '.join(n for n, _ in params)
                return f'impl<{gp}> {trait} for {name}<{ga}>'
            gen = []
            if 'Clone' in derives:
                gen.append(f'{impl_hdr("Clone", "Clone")} {{ #[verifier::external_body] fn clone(&self) -> (r: Self) ensures r == *self {{ unimplemented!() }} }}')
            if 'Copy' in derives:
                gen.append(f'{impl_hdr("Copy", "Copy")} {{}}')
            if 'Default' in derives and kind == 'struct' and fields is not None:
                body = ', '.join(f'{f}: Default::default()' for f in fields)
                gen.append(f'{impl_hdr("Default", "Default")} {{ fn default() -> Self {{ {name} {{ {body} }} }} }}')
            if 'PartialEq' in derives:
                gen.append(f'{impl_hdr("PartialEq", "PartialEq")} {{ #[verifier::external_body] fn eq(&self, other: &Self) -> (r: bool) ensures r == (*self == *other) {{ unimplemented!() }} }}')
            edits.append((t.s, ct[c].e, ''))
            if gen:
                edits.append((item_end, item_end, '\n' + '\n'.join(gen)))
            ctx.log.append(('R1', src[t.s:ct[c].e], ' '.join(gen)))
            i = c + 1; continue
        i += 1
    return apply_edits(src, edits)


# ---------------------------------------------------------------- R6 format

def r6_format(src, ctx):
    ct = _ct(src)
    edits = []
    i = 0
    while i + 2 < len(ct):
        if ct[i].k == 'id' and ct[i].t == 'format' and ct[i + 1].t == '!' and ct[i + 2].t == '(':
            c = match_close(ct, i + 2)
            before = re.sub(r'\s+', ' ', src[ct[i].s:ct[c].e])
            edits.append((ct[i].s, ct[c].e, 'verif_fmt()'))
            ctx.log.append(('R6', before[:120], 'verif_fmt()'))
            i = c + 1; continue
        i += 1
    return apply_edits(src, edits)



# ---------------------------------------------------------------- R6s structured format (opt fmt-structured)

def _split_args(ct, o, c):
    """token index ranges (lo, hi) of the comma-separated arguments between ct[o]='(' and ct[c]=')'"""
    out, depth, lo = [], 0, o + 1
    for k in range(o + 1, c):
        t = ct[k]
        if t.k == 'p' and t.t in OPEN: depth += 1
        elif t.k == 'p' and t.t in CLOSE: depth -= 1
        elif t.k == 'p' and t.t == ',' and depth == 0:
            out.append((lo, k)); lo = k + 1
    if lo < c: out.append((lo, c))
    return out


def _parse_template(lit):
    """Rust string literal -> [('lit', text) | ('arg', name, has_spec)]; text keeps the literal's own escapes"""
    if not (lit.startswith('"') and lit.endswith('"')): raise Unsupported('format template is not a plain string literal: ' + lit[:40])
    body, out, cur, i = lit[1:-1], [], '', 0
    if '\\\n' in body: raise Unsupported('format template with a line continuation')
    while i < len(body):
        ch = body[i]
        if ch == '\\': cur += body[i:i + 2]; i += 2; continue
        if ch == '{':
            if body.startswith('{{', i): cur += '{'; i += 2; continue
            j = body.find('}', i)
            if j < 0: raise Unsupported('format template: unclosed {')
            inner = body[i + 1:j]
            name, _, spec = inner.partition(':')
            name = name.strip()
            if name and not re.fullmatch(r'[A-Za-z_][A-Za-z0-9_]*', name): raise Unsupported('format template: positional index / expression ' + inner)
            if cur: out.append(('lit', cur)); cur = ''
            out.append(('arg', name, bool(spec)))
            i = j + 1; continue
        if ch == '}':
            if body.startswith('}}', i): cur += '}'; i += 2; continue
            raise Unsupported('format template: stray }')
        cur += ch; i += 1
    if cur: out.append(('lit', cur))
    return out


def r6s_format_structured(src, ctx):
    while True:
        ct = _ct(src)
        hit = None
        for i in range(len(ct) - 2):
            if ct[i].k == 'id' and ct[i].t in ('format', 'writeln', 'write') and ct[i + 1].t == '!' and ct[i + 2].t == '(':
                hit = i                      # keep the last one: inner invocations are rewritten before the one that contains them
        if hit is None: return src
        i = hit; macro = ct[i].t
        c = match_close(ct, i + 2)
        args = _split_args(ct, i + 2, c)
        txt = lambda a: src[ct[a[0]].s:ct[a[1] - 1].e]
        dest = None
        if macro != 'format':
            if not args or args[0][1] - args[0][0] != 1 or ct[args[0][0]].k != 'id': raise Unsupported(f'{macro}! destination is not a plain variable')
            dest = txt(args[0]); args = args[1:]
        if not args or args[0][1] - args[0][0] != 1 or ct[args[0][0]].k != 'str': raise Unsupported(f'{macro}! without a literal template')
        pieces = _parse_template(ct[args[0][0]].t)
        pos, named = [], {}
        for a in args[1:]:
            if a[1] - a[0] >= 3 and ct[a[0]].k == 'id' and ct[a[0] + 1].t == '=' and ct[a[0] + 2].t != '=':
                named[ct[a[0]].t] = src[ct[a[0] + 2].s:ct[a[1] - 1].e]
            else: pos.append(txt(a))
        lets, shown, nextpos = [], [], 0
        for pc in pieces:
            if pc[0] == 'lit':
                if macro == 'format': shown.append(f'FmtPiece::Lit("{pc[1]}"@)')
                continue
            _, name, has_spec = pc
            if name and name not in named: ex = f'{name}.show()'
            else:
                if name: e = named[name]
                else:
                    if nextpos >= len(pos): raise Unsupported(f'{macro}!: more placeholders than arguments')
                    e = pos[nextpos]; nextpos += 1
                v = ctx.fresh('fa'); lets.append(f'let {v} = &({e});'); ex = f'{v}.show()'
            if macro == 'format': shown.append(('FmtPiece::SpecArg(' if has_spec else 'FmtPiece::Arg(') + ex + ')')
            else: shown.append(ex)
        if nextpos != len(pos): raise Unsupported(f'{macro}!: unused positional arguments')
        g = ctx.fresh('fg')
        tpl = ct[args[0][0]].t
        lets.insert(0, '/*' + macro + '! ' + (tpl if '*/' not in tpl and '\n' not in tpl else '') + '*/')
        if macro == 'format':
            rep = '{ ' + ' '.join(lets) + f' let ghost {g}: Seq<FmtPiece> = seq![{", ".join(shown)}]; verif_format(Ghost({g})) }}'
        else:
            rep = '{ ' + ' '.join(lets) + f' let ghost {g}: Rec = seq![{", ".join(shown)}]; {dest}.verif_writeln(Ghost({g})) }}'
        ctx.log.append(('R6s', re.sub(r'\s+', ' ', src[ct[i].s:ct[c].e])[:160], re.sub(r'\s+', ' ', rep)[:200]))
        src = src[:ct[i].s] + rep + src[ct[c].e:]


def _r22_dedup(src, ctx):
    def rep(m):
        ctx.log.append(('R22', m.group(0), f'verif_dedup(&mut {m.group(1)});'))
        return f'verif_dedup(&mut {m.group(1)});'
    return re.sub(r'\b(\w+)\.dedup\(\);', rep, src)


def _r22_split(src, ctx):
    def rep(m):
        ctx.log.append(('R22', m.group(0), f'verif_split(&{m.group(1)}, {m.group(2)})'))
        return f'verif_split(&{m.group(1)}, {m.group(2)})'
    return re.sub(r"\b(\w+)\.split\(('(?:[^'\\\\]|\\\\.)')\)", rep, src)


def _r22_chars(src, ctx):
    def rep(m):
        ctx.log.append(('R22', m.group(0), f'verif_chars_vec(&{m.group(1)})'))
        return f'verif_chars_vec(&{m.group(1)})'
    return re.sub(r'\b(\w+)\.chars\(\)\.collect\(\)', rep, src)


def r22_str_methods(src, ctx):
    """`v.dedup();` -> verif_dedup(&mut v); `X.trim_end()` -> verif_trim_end(&X); `X.trim_end().to_string()` -> verif_str_to_string(verif_trim_end(&X)); `<that> + "lit"` -> verif_str_add"""
    while True:
        ct = _ct(src)
        hit = None
        for i in range(1, len(ct) - 3):
            if ct[i].t == 'trim_end' and ct[i - 1].t == '.' and ct[i + 1].t == '(' and ct[i + 2].t == ')':
                hit = i; break
        if hit is None: return src
        i = hit
        r0 = recv_start(ct, i - 2)
        recv = src[ct[r0].s:ct[i - 2].e]
        end = i + 2
        rep = f'verif_trim_end(&{recv})'
        if end + 4 < len(ct) and ct[end + 1].t == '.' and ct[end + 2].t == 'to_string' and ct[end + 3].t == '(' and ct[end + 4].t == ')':
            end += 4; rep = f'verif_str_to_string({rep})'
            if end + 2 < len(ct) and ct[end + 1].t == '+' and ct[end + 2].k == 'str':
                rep = f'verif_str_add({rep}, {ct[end + 2].t})'; end += 2
        ctx.log.append(('R22', src[ct[r0].s:ct[end].e], rep))
        src = src[:ct[r0].s] + rep + src[ct[end].e:]

# ---------------------------------------------------------------- R5 let-chain

def r5_let_chain(src, ctx):
    """else-less `if let P = e && <more> { B }` -> nested ifs."""
    changed = True
    while changed:
        changed = False
        ct = _ct(src)
        for i, t in enumerate(ct):
            if t.k == 'id' and t.t == 'if' and i + 1 < len(ct):
                # find body '{' at depth 0 and top-level '&&' positions
                j = i + 1; amps = []; has_let = False
                while j < len(ct) and ct[j].t != '{':
                    if ct[j].t in ('(', '['): j = match_close(ct, j)
                    elif ct[j].t == 'let':
                        has_let = True
                        j += 1
                        while j < len(ct) and not (ct[j].t == '=' and ct[j + 1].t != '=' and ct[j - 1].t not in ('=', '!', '<', '>')):
                            if ct[j].t in OPEN: j = match_close(ct, j)
                            j += 1
                    elif ct[j].t == '&' and ct[j + 1].t == '&' and ct[j + 1].s == ct[j].e:
                        amps.append(j); j += 1
                    elif ct[j].t == '|' and ct[j + 1].t == '|' and ct[j + 1].s == ct[j].e:
                        amps = None; break
                    j += 1
                if amps is None or not amps or not has_let or j >= len(ct): continue
                # only split at && that separate let-conditions: split all top-level && where either side has let
                bo = j; bc = match_close(ct, bo)
                if bc + 1 < len(ct) and ct[bc + 1].t == 'else':
                    raise Unsupported('let-chain with else branch (R5)')
                conds = []
                prev = ct[i].e
                for a in amps:
                    conds.append(src[prev:ct[a].s].strip()); prev = ct[a + 1].e
                conds.append(src[prev:ct[bo].s].strip())
                # merge trailing non-let conditions with && into one
                merged = []
                for c in conds:
                    if merged and not c.startswith('let') and not merged[-1].startswith('let'):
                        merged[-1] = merged[-1] + ' && ' + c
                    else:
                        merged.append(c)
                if len(merged) < 2: continue
                body = src[ct[bo].s:ct[bc].e]
                new = ''
                for c in merged: new += f'if {c} {{ '
                new += body
                new += ' }' * len(merged)
                # first `if c {` opened one extra brace level each; body already has its own braces
                before = re.sub(r'\s+', ' ', src[ct[i].s:ct[bo].s])
                src = src[:ct[i].s] + new + src[ct[bc].e:]
                ctx.log.append(('R5', before, ' '.join(f'if {c} {{' for c in merged)))
                changed = True
                break
    return src


# ---------------------------------------------------------------- R2 sum chains, R7 collect, R3/R4/R12 loops

def _find_iter_chains(src):
    """Yield (ct, recv_first_idx, dot_idx, segs, after_idx) for each `<recv>.iter()` / `.into_iter()` chain."""
    ct = _ct(src)
    for i in range(len(ct) - 3):
        if ct[i].t == '.' and ct[i + 1].k == 'id' and ct[i + 1].t in ('iter', 'into_iter') and ct[i + 2].t == '(' and ct[i + 3].t == ')':
            if i == 0: continue
            segs, nxt = parse_chain(ct, i)
            r0 = recv_start(ct, i - 1)
            yield ct, r0, i, segs, nxt


def r2_sum(src, ctx):
    while True:
        done = True
        for ct, r0, dot, segs, nxt in _find_iter_chains(src):
            names = [s[0] for s in segs]
            if 'sum' not in names: continue
            k = names.index('sum')
            head = segs[0][0]
            mids = segs[1:k]
            if any(m[0] not in ('filter', 'map', 'filter_map') for m in mids):
                raise Unsupported('sum chain with adapter ' + ','.join(names))
            recv = re.sub(r'\s*\.\s*', '.', src[ct[r0].s:ct[dot].s].strip())
            var = None
            conds = []; mapped = None; fm = None
            for name, (lo, hi), _, _ in mids:
                cp = closure_parts(src, ct, lo, hi)
                if cp is None: raise Unsupported('non-closure argument in sum chain')
                p, body = cp
                if mapped is not None or fm is not None: raise Unsupported('adapter after map in sum chain')
                if var is None: var = p
                elif p != var:
                    body = re.sub(r'\b%s\b' % re.escape(p), var, body)
                if name == 'filter': conds.append(body)
                elif name == 'map': mapped = body
                else: fm = body
            if var is None: raise Unsupported('bare .iter().sum()')
            acc = ctx.fresh('acc')
            it = 'iter' if head == 'iter' else 'into_iter'
            inner = None
            if fm is not None:
                # match SCRUT { PAT => Some(X), _ => None }
                m = re.match(r'match\s+(.*?)\s*\{\s*(.*?)\s*=>\s*Some\((.*)\)\s*,\s*_\s*=>\s*None\s*,?\s*\}\s*$', fm, re.S)
                if not m: raise Unsupported('filter_map closure not of the form match .. { P => Some(X), _ => None }')
                inner = f'match {m.group(1)} {{ {m.group(2)} => {{ {acc} = {acc} + {m.group(3)}; }} _ => {{}} }}'
            else:
                inner = f'{acc} = {acc} + {mapped if mapped is not None else "*" + var};'
            for c in reversed(conds):
                inner = f'if {c} {{ {inner} }}'
            sum_seg = segs[k]
            end = ct[sum_seg[1][1]].e
            new = f'({{ let mut {acc} = Decimal::ZERO;\nfor {var} in {recv}.{it}() {{\n{inner}\n}}\n{acc} }})'
            before = re.sub(r'\s+', ' ', src[ct[r0].s:end])
            src = src[:ct[r0].s] + new + src[end:]
            ctx.log.append(('R2', before, new))
            done = False
            break
        if done: return src


def _for_headers(src):
    """Yield (ct, i_for, i_in, i_brace) for every `for PAT in EXPR {`."""
    ct = _ct(src)
    for i, t in enumerate(ct):
        if t.k == 'id' and t.t == 'for' and i + 1 < len(ct) and ct[i + 1].t != '<':
            # impl X for Y: previous token chain contains impl on same item; cheap test: next tokens up to `in`
            j = i + 1; depth = 0; i_in = None
            while j < len(ct) and ct[j].t not in ('{', ';'):
                if ct[j].t in ('(', '['): j = match_close(ct, j)
                elif ct[j].k == 'id' and ct[j].t == 'in': i_in = j; break
                j += 1
            if i_in is None: continue
            j = i_in + 1
            while j < len(ct) and ct[j].t != '{':
                if ct[j].t in ('(', '['): j = match_close(ct, j)
                j += 1
            if j >= len(ct): continue
            yield ct, i, i_in, j


def _has_continue(ct, bo, bc):
    """continue belonging to this loop (not to a nested loop)."""
    j = bo + 1
    while j < bc:
        t = ct[j]
        if t.k == 'id' and t.t in ('for', 'while', 'loop') and ct[j + 1].t != '<':
            k = j + 1
            while ct[k].t != '{':
                if ct[k].t in ('(', '['): k = match_close(ct, k)
                k += 1
            j = match_close(ct, k) + 1; continue
        if t.k == 'id' and t.t == 'continue': return True
        j += 1
    return False


def _continue_toks(ct, bo, bc):
    """token indices of the `continue`s belonging to this loop (not to a nested loop)"""
    out = []
    j = bo + 1
    while j < bc:
        t = ct[j]
        if t.k == 'id' and t.t in ('for', 'while', 'loop') and ct[j + 1].t != '<':
            k = j + 1
            while ct[k].t != '{':
                if ct[k].t in ('(', '['): k = match_close(ct, k)
                k += 1
            j = match_close(ct, k) + 1; continue
        if t.k == 'id' and t.t == 'continue': out.append(j)
        j += 1
    return out


def _is_ref_param(src, pos, name):
    """True when `name` is a parameter of reference type of the function enclosing `pos`."""
    k = src.rfind('fn ', 0, pos)
    while k >= 0:
        hdr_end = src.find('{', k)
        if hdr_end < 0 or hdr_end > pos:
            k = src.rfind('fn ', 0, k); continue
        hdr = src[k:hdr_end]
        m = re.search(r'\b%s\s*:\s*(&|Option<&)' % re.escape(name), hdr)
        m2 = re.search(r'\b%s\s*:' % re.escape(name), hdr)
        if m2: return bool(m)
        k = src.rfind('fn ', 0, k)
    return False


def r3_loops(src, ctx, map_locals=()):
    """R3 (enumerate / slices), R4 (&mut), R11 (map walk), R12 (by-value with continue)."""
    while True:
        done = True
        for ct, i_for, i_in, bo in _for_headers(src):
            pat = src[ct[i_for].e:ct[i_in].s].strip()
            expr = src[ct[i_in].e:ct[bo].s].strip()
            if re.match(r'^\w+\s*:', expr): continue          # already `it: expr`
            bc = match_close(ct, bo)
            hdr_s, hdr_e = ct[i_for].s, ct[bo].e
            new = None; close_extra = ''
            m = re.match(r'^\(\s*(\w+)\s*,\s*(.+)\)$', pat, re.S)
            # --- enumerate().skip(K)
            mm = re.match(r'^(.*)\.iter\(\)\s*\.enumerate\(\)\s*\.skip\((.*)\)$', expr, re.S)
            if mm and m:
                iv = ctx.fresh('i')
                e = mm.group(1).strip(); k = mm.group(2).strip()
                new = f'{{ let mut {iv}: usize = {k}; while {iv} < {e}.len() /*DEC*/ decreases {e}.len() - {iv} {{\nlet {m.group(1)} = {iv}; let {m.group(2).strip()} = &{e}[{iv}]; {iv} += 1;\n'
                close_extra = ' }'
                rule = 'R3'
            if new is None:
                mm = re.match(r'^(.*)\[(.*)\.\.(.*)\]\s*\.iter\(\)\s*\.enumerate\(\)$', expr, re.S)
                if mm and m:
                    e, a, b = [x.strip() for x in mm.groups()]
                    new = f'for {m.group(1)} in 0..({b} - {a}) {{\nlet {m.group(2).strip()} = &{e}[{a} + {m.group(1)}];\n'
                    rule = 'R3'
            if new is None:
                mm = re.match(r'^(.*)\.iter\(\)\s*\.enumerate\(\)$', expr, re.S)
                if mm and m:
                    e = mm.group(1).strip()
                    new = f'for {m.group(1)} in 0..{e}.len() {{\nlet {m.group(2).strip()} = &{e}[{m.group(1)}];\n'
                    rule = 'R3'
            if new is None:
                mm = re.match(r'^&\s*(.*)\[(.*)\.\.(.*)\]$', expr, re.S)
                if mm and not expr.startswith('&mut'):
                    e, a, b = [x.strip() for x in mm.groups()]
                    ov = ctx.fresh('o')
                    new = f'for {ov} in 0..({b} - {a}) {{\nlet {pat} = &{e}[{a} + {ov}];\n'
                    rule = 'R3'
            if new is None:
                mm = re.match(r'^&mut\s+(.*)$', expr, re.S) or re.match(r'^(.*)\.iter_mut\(\)$', expr, re.S)
                if mm:
                    e = mm.group(1).strip()
                    iv = ctx.fresh('i')
                    new = f'{{ let mut {iv}: usize = 0; while {iv} < {e}.len() /*DEC*/ decreases {e}.len() - {iv} {{\nlet {pat} = &mut {e}[{iv}]; {iv} += 1;\n'
                    close_extra = ' }'
                    rule = 'R4'
            if new is None and 'enumerate' in expr:
                raise Unsupported('enumerate() loop form not covered by R3: ' + expr)
            if new is None:
                by_value = not expr.startswith('&') and not re.search(r'\.(iter|values|keys|iter_mut|chars|bytes)\(\)$', expr) and '..' not in expr
                if by_value and re.match(r'^\w+$', expr) and _is_ref_param(src, ct[i_for].s, expr):
                    by_value = False
                    if not _has_continue(ct, bo, bc): continue
                if by_value and re.match(r'^\w+$', expr) and expr in map_locals:
                    new = f'for {pat} in {expr}.into_iter() {{'
                    rule = 'R11'
                elif by_value and re.match(r'^\w+(\.\w+)*(\.into_iter\(\))?$', expr) and not (expr.split('.')[0] in map_locals):
                    itv = ctx.fresh('it')
                    mm = re.match(r'^(.*)\.into_iter\(\)\s*\.skip\((.*)\)$', expr, re.S)
                    if mm:
                        ctor = f'verif_into_iter_skip({mm.group(1).strip()}, {mm.group(2).strip()})'
                    else:
                        e = re.sub(r'\.into_iter\(\)$', '', expr)
                        ctor = f'verif_into_iter({e})'
                    new = f'{{ let mut {itv} = {ctor};\nwhile {itv}.has_next() /*DEC*/ decreases {itv}.rest().len() {{\nlet {pat} = {itv}.next_val();\n'
                    close_extra = '\n}'
                    rule = 'R12'
                elif not by_value and _has_continue(ct, bo, bc) and re.match(r'^\w+$', pat) and re.match(r'^[^.]+(\.[^.]+)*?\.\.[^=.][^.]*(\.[^.]+)*$', expr) and expr.count('..') == 1:
                    # R3c: `for x in A..B { .. continue; .. }` (Verus: "for-loops do not yet support continue") -> a while loop over the SAME
                    # variable: `let mut x = A; while x < B { ..; x += 1 }`, every `continue` of this loop preceded by the increment.
                    # The original header is kept as a comment inside the new one so that contract anchors written for the `for` still find it.
                    a, b = [x.strip() for x in expr.split('..')]
                    cts = _continue_toks(ct, bo, bc)
                    if any(ct[j + 1].t not in (';', ',', '}') for j in cts): raise Unsupported('labelled continue in for-loop over ' + expr)
                    # B is re-evaluated by the while loop: sound only if the body cannot change it
                    bt = code_toks(tokenize(b))
                    bids = {t.t for t in bt if t.k == 'id'}
                    if any(t.t == '(' and k > 0 and bt[k - 1].k == 'id' and not (k > 1 and bt[k - 2].t == '.' and bt[k - 1].t == 'len') for k, t in enumerate(bt)):
                        raise Unsupported('for-loop with continue over a range whose bound calls a function: ' + expr)
                    for j in range(bo + 1, bc):
                        if ct[j].k == 'id' and ct[j].t in bids:
                            nx, nx2 = ct[j + 1].t, ct[j + 2].t
                            assigned = (nx == '=' and nx2 != '=') or (nx in '+-*/%' and nx2 == '=' and ct[j + 1].e == ct[j + 2].s)
                            borrowed = ct[j - 1].t == 'mut' and ct[j - 2].t == '&'
                            if (assigned and ct[j - 1].t not in ('.', 'let', 'mut')) or borrowed:
                                raise Unsupported('for-loop with continue over a range whose bound the body changes: ' + expr)
                    body = src[ct[bo].e:ct[bc].s]
                    off = ct[bo].e
                    for j in reversed(cts):
                        body = body[:ct[j].s - off] + f'{{ {pat} += 1; continue }}' + body[ct[j].e - off:]
                    before = re.sub(r'\s+', ' ', src[hdr_s:hdr_e])
                    hdr = re.sub(r'\s+', ' ', src[ct[i_for].s:ct[bo].s]).strip()
                    new = f'{{ let mut {pat} = {a}; while /*{hdr}*/ {pat} < {b} /*DEC*/ decreases {b} - {pat} {{'
                    src = src[:hdr_s] + new + body + f'\n{pat} += 1;\n}} }}' + src[ct[bc].e:]
                    ctx.log.append(('R3c', before, new))
                    done = False
                    break
                elif not by_value and _has_continue(ct, bo, bc):
                    mm = re.match(r'^&\s*(\w[\w.]*)$', expr) or re.match(r'^(\w[\w.]*)\.iter\(\)$', expr) or (re.match(r'^(\w+)$', expr) if _is_ref_param(src, ct[i_for].s, expr) else None)
                    if not mm: raise Unsupported('for-loop with continue over ' + expr)
                    e = mm.group(1); iv = ctx.fresh('i')
                    new = f'{{ let mut {iv}: usize = 0; while {iv} < {e}.len() /*DEC*/ decreases {e}.len() - {iv} {{\nlet {pat} = &{e}[{iv}]; {iv} += 1;\n'
                    close_extra = ' }'
                    rule = 'R3'
            if new is None: continue
            before = re.sub(r'\s+', ' ', src[hdr_s:hdr_e])
            src = src[:hdr_s] + new + src[hdr_e:ct[bc].e] + close_extra + src[ct[bc].e:]
            ctx.log.append((rule, before, new))
            done = False
            break
        if done: return src


def r12_skip_by_value(src, ctx):
    """`for P in E.into_iter().skip(K) {` without continue -> R12 form as well (skip adapter has no usable spec)."""
    while True:
        done = True
        for ct, i_for, i_in, bo in _for_headers(src):
            pat = src[ct[i_for].e:ct[i_in].s].strip()
            expr = src[ct[i_in].e:ct[bo].s].strip()
            mm = re.match(r'^(.*)\.into_iter\(\)\s*\.skip\((.*)\)$', expr, re.S)
            if not mm: continue
            bc = match_close(ct, bo)
            itv = ctx.fresh('it')
            new = f'{{ let mut {itv} = verif_into_iter_skip({mm.group(1).strip()}, {mm.group(2).strip()});\nwhile {itv}.has_next() /*DEC*/ decreases {itv}.rest().len() {{\nlet {pat} = {itv}.next_val();\n'
            before = re.sub(r'\s+', ' ', src[ct[i_for].s:ct[bo].e])
            src = src[:ct[i_for].s] + new + src[ct[bo].e:ct[bc].e] + '\n}' + src[ct[bc].e:]
            ctx.log.append(('R12', before, new))
            done = False
            break
        if done: return src


# ---------------------------------------------------------------- R8 sort

def r8_sort(src, ctx):
    def rep_sort_by(m):
        recv, a, b, ka, kb = m.group(1), m.group(2), m.group(3), m.group(4), m.group(5)
        if ka != kb: raise Unsupported('sort_by comparator with different keys')
        fn = 'verif_sort_by_' + re.sub(r'\W+', '_', ka).strip('_')
        ctx.log.append(('R8', m.group(0), f'{fn}(&mut {recv});'))
        return f'{fn}(&mut {recv});'
    src = re.sub(r'(\w[\w.]*)\.sort_by\(\|(\w+),\s*(\w+)\|\s*\2\.([\w.]+)\.cmp\(&\3\.([\w.]+)\)\);', rep_sort_by, src)

    def rep_sort_unstable_by(m):
        recv, a, b, ka, kb = m.group(1), m.group(2), m.group(3), m.group(4), m.group(5)
        if ka != kb: raise Unsupported('sort_unstable_by comparator with different keys')
        fn = 'verif_sort_unstable_by_' + re.sub(r'\W+', '_', ka).strip('_')
        ctx.log.append(('R8', m.group(0), f'{fn}(&mut {recv});'))
        return f'{fn}(&mut {recv});'
    src = re.sub(r'(\w[\w.]*)\.sort_unstable_by\(\|(\w+),\s*(\w+)\|\s*\2\.([\w.]+)\.cmp\(&\3\.([\w.]+)\)\);', rep_sort_unstable_by, src)

    def rep_sort_unstable_key(m):
        recv, p, key = m.group(1), m.group(2), m.group(3)
        key = re.sub(r'^%s\.' % re.escape(p), '', key.strip())
        fn = 'verif_sort_unstable_by_key_' + re.sub(r'\W+', '_', key).strip('_')
        ctx.log.append(('R8', m.group(0), f'{fn}(&mut {recv});'))
        return f'{fn}(&mut {recv});'
    src = re.sub(r'(\w[\w.]*)\.sort_unstable_by_key\(\|(\w+)\|\s*([^;{}]*?)\);', rep_sort_unstable_key, src)

    def rep_sort_key(m):
        recv, p, key = m.group(1), m.group(2), m.group(3)
        key = re.sub(r'^%s\.' % re.escape(p), '', key.strip())
        fn = 'verif_sort_by_key_' + re.sub(r'\W+', '_', key).strip('_')
        ctx.log.append(('R8', m.group(0), f'{fn}(&mut {recv});'))
        return f'{fn}(&mut {recv});'
    src = re.sub(r'(\w[\w.]*)\.sort_by_key\(\|(\w+)\|\s*([^;{}]*?)\);', rep_sort_key, src)

    def rep_is_sorted_key(m):
        recv, p, key = m.group(1), m.group(2), m.group(3)
        key = re.sub(r'^%s\.' % re.escape(p), '', key.strip())
        fn = 'verif_is_sorted_by_key_' + re.sub(r'\W+', '_', key).strip('_')
        ctx.log.append(('R8', m.group(0), f'{fn}(&{recv})'))
        return f'{fn}(&{recv})'
    src = re.sub(r'(\w[\w.]*)\.is_sorted_by_key\(\|(\w+)\|\s*([^;{}()]*?)\)', rep_is_sorted_key, src)

    def rep_sdt(m):
        recv = m.group(1)
        ctx.log.append(('R8', re.sub(r'\s+', ' ', m.group(0)), f'verif_sort_by_date_ticker(&mut {recv});'))
        return f'verif_sort_by_date_ticker(&mut {recv});'
    src = re.sub(r'(?:crate::)?sort_by_date_ticker\(\s*&mut\s+(\w+),\s*\|(\w+)\|\s*\2\.date,\s*\|(\w+)\|\s*&\3\.ticker,?\s*\);', rep_sdt, src)
    return src


# ---------------------------------------------------------------- R9 option combinators

def r9_option(src, ctx):
    """`E.map(|l| B).unwrap_or(Z)` -> match; `.copied().unwrap_or(Z)` left alone (has spec)."""
    while True:
        ct = _ct(src)
        hit = False
        for i in range(len(ct) - 2):
            if ct[i].t == '.' and ct[i + 1].t == 'map' and ct[i + 2].t == '(':
                segs, nxt = parse_chain(ct, i)
                if len(segs) >= 2 and segs[1][0] == 'unwrap_or':
                    cp = closure_parts(src, ct, *segs[0][1])
                    if cp is None: continue
                    p, body = cp
                    r0 = recv_start(ct, i - 1)
                    recv = src[ct[r0].s:ct[i].s]
                    z = src[ct[segs[1][1][0]].e:ct[segs[1][1][1]].s].strip()
                    end = ct[segs[1][1][1]].e
                    new = f'(match {recv.strip()} {{ Some({p}) => {body}, None => {z} }})'
                    ctx.log.append(('R9', re.sub(r'\s+', ' ', src[ct[r0].s:end]), new))
                    src = src[:ct[r0].s] + new + src[end:]
                    hit = True
                    break
        if not hit: return src



def r9b_or_insert_with(src, ctx):
    """`E.entry(K).or_insert_with(|| X)` -> its std definition: vacant => insert(X), occupied => into_mut()."""
    while True:
        ct = _ct(src)
        hit = False
        for i in range(len(ct) - 2):
            if ct[i].t == '.' and ct[i + 1].t in ('or_insert_with', 'or_default') and ct[i + 2].t == '(':
                c = match_close(ct, i + 2)
                if ct[i + 1].t == 'or_default':
                    cp = ('', 'Default::default()')
                else:
                    cp = closure_parts(src, ct, i + 2, c)
                if cp is None or cp[0] != '': raise Unsupported('or_insert_with argument is not a `|| expr` closure')
                r0 = recv_start(ct, i - 1)
                recv = src[ct[r0].s:ct[i].s].strip()
                ev = ctx.fresh('e')
                new = f'({{ let {ev} = {recv}; if {ev}.verif_is_vacant() {{ {ev}.verif_insert({cp[1]}) }} else {{ {ev}.verif_into_mut() }} }})'
                ctx.log.append(('R9', re.sub(r'\s+', ' ', src[ct[r0].s:ct[c].e]), re.sub(r'\s+', ' ', new)))
                src = src[:ct[r0].s] + new + src[ct[c].e:]
                hit = True
                break
        if not hit: return src


def r9c_and_modify(src, ctx):
    """`M.entry(K).and_modify(|d| { B }).or_insert(X)` -> std definition: occupied => apply the closure body to the value, vacant => insert X."""
    while True:
        ct = _ct(src)
        hit = False
        for i in range(len(ct) - 2):
            if ct[i].t == '.' and ct[i + 1].t == 'and_modify' and ct[i + 2].t == '(':
                c = match_close(ct, i + 2)
                cp = closure_parts(src, ct, i + 2, c)
                if cp is None: raise Unsupported('and_modify argument is not a closure')
                if not (ct[c + 1].t == '.' and ct[c + 2].t == 'or_insert' and ct[c + 3].t == '('):
                    raise Unsupported('and_modify not followed by or_insert')
                c2 = match_close(ct, c + 3)
                x = src[ct[c + 3].e:ct[c2].s].strip()
                r0 = recv_start(ct, i - 1)
                recv = re.sub(r'\s*\.\s*', '.', src[ct[r0].s:ct[i].s].strip())
                ev = ctx.fresh('e')
                new = f'({{ let {ev} = {recv}; if {ev}.verif_is_vacant() {{ {ev}.verif_insert({x}); }} else {{ let {cp[0]} = {ev}.verif_into_mut(); {cp[1]} }} }})'
                ctx.log.append(('R9', re.sub(r'\s+', ' ', src[ct[r0].s:ct[c2].e]), re.sub(r'\s+', ' ', new)))
                src = src[:ct[r0].s] + new + src[ct[c2].e:]
                hit = True
                break
        if not hit: return src

# ---------------------------------------------------------------- R7 collect

def r7_collect(src, ctx):
    while True:
        done = True
        for ct, r0, dot, segs, nxt in _find_iter_chains(src):
            names = [s[0] for s in segs]
            if not names or names[-1] != 'collect': continue
            head = names[0]
            mids = segs[1:-1]
            recv = re.sub(r'\s*\.\s*', '.', src[ct[r0].s:ct[dot].s].strip())
            end = ct[segs[-1][1][1]].e
            # context: `let [mut] NAME: TYPE = <chain>;` or tail expression
            # find start of statement
            s = r0 - 1
            let_ty = None
            if s >= 0 and ct[s].t == '=':
                q = s
                while q >= 0 and ct[q].t != 'let' and ct[q].t not in (';', '{', '}'): q -= 1
                if q >= 0 and ct[q].t == 'let':
                    decl = src[ct[q].s:ct[s].s]
                    mty = re.search(r':\s*(.*)$', decl, re.S)
                    let_ty = mty.group(1).strip() if mty else None
            tail = _stmt_is_tail_of_block(ct, _idx_of(ct, ct[segs[-1][1][1]].s))
            v = ctx.fresh('v')
            mid_names = [m[0] for m in mids]
            var = None; conds = []; mapped = None; cloned = False
            for name, (lo, hi), _, _ in mids:
                if name == 'cloned': cloned = True; continue
                cp = closure_parts(src, ct, lo, hi)
                if cp is None: raise Unsupported('collect chain: non-closure adapter ' + name)
                p, body = cp
                if name == 'filter':
                    var = var or p; conds.append(body if p == var else re.sub(r'\b%s\b' % re.escape(p), var, body))
                elif name == 'map':
                    if var is None: var = p
                    mapped = body
                else:
                    raise Unsupported('collect chain adapter ' + name)
            if var is None: raise Unsupported('collect chain without closure')
            is_result = False
            if let_ty is None and tail:
                is_result = True      # decided by caller: only used for fn tails returning Result<Vec<..>>
            elem = mapped if mapped is not None else ('(*' + var + ').clone()' if cloned else var)
            if is_result:
                push = f'match {elem} {{ Ok(__x) => {{ {v}.push(__x); }} Err(__e) => {{ return Err(__e); }} }}'
                fin = f'Ok({v})'
            else:
                xv = ctx.fresh('x')
                push = f'let {xv} = {elem}; {v}.push({xv});'
                fin = v
            inner = push
            for c in reversed(conds): inner = f'if {c} {{ {inner} }}'
            new = f'{{ let mut {v} = Vec::new();\nfor {var} in {recv}.{head}() {{\n{inner}\n}}\n{fin} }}'
            before = re.sub(r'\s+', ' ', src[ct[r0].s:end])
            src = src[:ct[r0].s] + new + src[end:]
            ctx.log.append(('R7', before, re.sub(r'\s+', ' ', new)))
            done = False
            break
        if done: return src



def r18_any_position(src, ctx):
    """`E.iter().any(|p| C)` / `E.iter().position(|p| C)` -> explicit scan that stops at the first hit (std definition)."""
    while True:
        done = True
        for ct, r0, dot, segs, nxt in _find_iter_chains(src):
            if len(segs) != 2 or segs[0][0] != 'iter' or segs[1][0] not in ('any', 'position'): continue
            cp = closure_parts(src, ct, *segs[1][1])
            if cp is None: raise Unsupported('any/position without closure')
            p, body = cp
            recv = re.sub(r'\s*\.\s*', '.', src[ct[r0].s:ct[dot].s].strip())
            end = ct[segs[1][1][1]].e
            iv = ctx.fresh('i'); fv = ctx.fresh('f')
            if segs[1][0] == 'any':
                new = (f'({{ let mut {fv} = false; let mut {iv}: usize = 0;\nwhile {iv} < {recv}.len() && !{fv} /*DEC*/ decreases {recv}.len() - {iv} {{\n'
                       f'let {p} = &{recv}[{iv}]; {iv} += 1;\nif {body} {{ {fv} = true; }}\n}}\n{fv} }})')
            else:
                new = (f'({{ let mut {fv}: Option<usize> = None; let mut {iv}: usize = 0;\nwhile {iv} < {recv}.len() && {fv}.is_none() /*DEC*/ decreases {recv}.len() - {iv} {{\n'
                       f'let {p} = &{recv}[{iv}];\nif {body} {{ {fv} = Some({iv}); }}\n{iv} += 1;\n}}\n{fv} }})')
            ctx.log.append(('R18', re.sub(r'\s+', ' ', src[ct[r0].s:end])[:200], re.sub(r'\s+', ' ', new)[:300]))
            src = src[:ct[r0].s] + new + src[end:]
            done = False
            break
        if done: return src

def r11_into_values(src, ctx):
    def rep(m):
        ctx.log.append(('R11', m.group(0), m.group(1) + '.into_values()'))
        return m.group(1) + '.into_values()'
    return re.sub(r'(\w+)\.into_values\(\)\.collect\(\)', rep, src)



def r11_hoist_map_iter(src, ctx, map_locals):
    """`for P in M.into_iter() {` (M a local HashMap) -> `{ let __mN = M.into_iter(); for P in __mN {` so the walk has a name."""
    while True:
        done = True
        for ct, i_for, i_in, bo in _for_headers(src):
            expr = src[ct[i_in].e:ct[bo].s].strip()
            m = re.match(r'^(\w+)\.into_iter\(\)$', expr)
            if not m or m.group(1) not in map_locals: continue
            bc = match_close(ct, bo)
            pat = src[ct[i_for].e:ct[i_in].s].strip()
            mv = ctx.fresh('m')
            new = f'{{ let {mv} = {expr};\nfor {pat} in {mv} {{'
            ctx.log.append(('R11', re.sub(r'\s+', ' ', src[ct[i_for].s:ct[bo].e]), new))
            src = src[:ct[i_for].s] + new + src[ct[bo].e:ct[bc].e] + ' }' + src[ct[bc].e:]
            done = False
            break
        if done: return src

def map_locals_of(src):
    """names of locals declared `let [mut] X: HashMap<..>`"""
    return set(re.findall(r'let\s+(?:mut\s+)?(\w+)\s*:\s*HashMap<', src))


def r14_wild_closure(src, ctx):
    """`|_| e` -> `|_verif_unused| e` (Verus accepts only variable patterns as closure parameters)."""
    def rep(m):
        ctx.log.append(('R14', m.group(0), '|_verif_unused|'))
        return '|_verif_unused|'
    return re.sub(r'\|\s*_\s*\|', rep, src)


def r16_ref_pattern(src, ctx):
    """`if let Some(&x) = E {` -> `if let Some(__rN) = E { let x = *__rN;` (Verus has no reference patterns)."""
    def rep(m):
        rv = ctx.fresh('r')
        new = f'if let Some({rv}) = {m.group(2)} {{ let {m.group(1)} = *{rv};'
        ctx.log.append(('R16', m.group(0), new))
        return new
    return re.sub(r'if let Some\(&(\w+)\) = ([^{]*?) \{', rep, src)


def r17_range_inclusive(src, ctx):
    """`for x in a..=b {` -> `for x in a..(b + 1) {` (definition of RangeInclusive iteration; b + 1 must not overflow: Verus checks it)."""
    def rep(m):
        new = f'for {m.group(1)} in {m.group(2)}..({m.group(3)} + 1) {{'
        ctx.log.append(('R17', m.group(0), new))
        return new
    return re.sub(r'for (\w+) in (\w+)\.\.=(\w+) \{', rep, src)


def r19_vec_elem_type(src, ctx):
    """R19: `let mut x = Vec::new()/with_capacity(..)` whose element type is only fixed by a later `x.push(Name { .. })`
    gets the ascription `: Vec<Name>` (contract clauses mentioning x are type-checked before that push is seen)."""
    out = src
    for m in list(re.finditer(r'let\s+mut\s+(\w+)\s*=\s*Vec::(?:new|with_capacity)\(', src)):
        name = m.group(1)
        pm = re.search(r'\b' + re.escape(name) + r'\.push\(\s*([A-Z]\w*)\s*\{', src[m.end():])
        if pm:
            out = out.replace(m.group(0), m.group(0).replace(name + ' =', name + ': Vec<' + pm.group(1) + '> =').replace(name + '  =', name + ': Vec<' + pm.group(1) + '> ='), 1)
            ctx.log.append(('R19', m.group(0), 'Vec<' + pm.group(1) + '>'))
    return out

def r20_then_with(src, ctx):
    """R20: `A.then_with(|| B)` -> its std definition `match A { Equal => B, o => o }` (laziness preserved); an unannotated closure has no usable
    specification in Verus."""
    while True:
        ct = _ct(src)
        hit = False
        for i in range(len(ct) - 2):
            if ct[i].t == '.' and ct[i + 1].t == 'then_with' and ct[i + 2].t == '(':
                c = match_close(ct, i + 2)
                cp = closure_parts(src, ct, i + 2, c)
                if cp is None or cp[0] != '': raise Unsupported('then_with argument is not a `|| expr` closure')
                r0 = recv_start(ct, i - 1)
                recv = src[ct[r0].s:ct[i].s].strip()
                ov = ctx.fresh('o')
                new = f'(match {recv} {{ core::cmp::Ordering::Equal => {{ {cp[1]} }}, {ov} => {ov} }})'
                ctx.log.append(('R20', re.sub(r'\s+', ' ', src[ct[r0].s:ct[c].e]), new))
                src = src[:ct[r0].s] + new + src[ct[c].e:]
                hit = True
                break
        if not hit: return src

def r21_ref_eq(src, ctx):
    """R21: `x == &a.b` / `x != &a.b` (x an identifier, so a reference) -> `*x == a.b`: the std impl `PartialEq<&B> for &A` is defined as
    `PartialEq::eq(*self, *other)`; this Verus connects `==` on values to the type's specification but not `==` on two references."""
    ct = _ct(src)      # punctuation is tokenised one character at a time
    edits = []
    def adj(a, b): return ct[a].e == ct[b].s
    for i in range(2, len(ct) - 4):
        if not (ct[i].k == 'id' and ct[i + 1].t in ('=', '!') and ct[i + 2].t == '=' and adj(i + 1, i + 2) and ct[i + 3].t == '&' and ct[i + 4].k == 'id' and ct[i + 4].t != 'mut'): continue
        if ct[i + 3].e != ct[i + 4].s: continue
        prev = ct[i - 1].t
        if prev not in ('&', '|', '(', 'if', '{', '=', ',', 'return'): continue
        if prev in ('&', '|') and not (ct[i - 2].t == prev and adj(i - 2, i - 1)): continue       # `&& x` / `|| x`, not `&x`
        if prev == '=' and ct[i - 2].t in ('=', '!', '<', '>'): continue
        j = i + 4
        while j + 2 < len(ct) and ct[j + 1].t == '.' and ct[j + 2].k == 'id': j += 2
        if j + 1 >= len(ct): continue
        nx = ct[j + 1].t
        if nx not in ('&', '|', ')', ',', '{', ';', '}'): continue
        if nx in ('&', '|') and not (j + 2 < len(ct) and ct[j + 2].t == nx and adj(j + 1, j + 2)): continue
        edits.append((ct[i].s, ct[i].s, '*'))
        edits.append((ct[i + 3].s, ct[i + 3].e, ''))
        ctx.log.append(('R21', src[ct[i].s:ct[j].e], '*' + src[ct[i].s:ct[i + 3].s] + src[ct[i + 4].s:ct[j].e]))
    return apply_edits(src, edits)

def apply_all(src, ctx):
    src = r0_strip(src, ctx)
    src = r21_ref_eq(src, ctx)
    src = r17_range_inclusive(src, ctx)
    src = r16_ref_pattern(src, ctx)
    src = r14_wild_closure(src, ctx)
    src = r1_derive(src, ctx)
    if getattr(ctx, 'fmt_structured', False):
        src = r6s_format_structured(src, ctx)
        src = r22_str_methods(src, ctx)
        src = _r22_dedup(src, ctx)
        src = _r22_split(src, ctx)
        src = _r22_chars(src, ctx)
    src = r6_format(src, ctx)
    src = r5_let_chain(src, ctx)
    src = r8_sort(src, ctx)
    src = r9_option(src, ctx)
    src = r20_then_with(src, ctx)
    src = r9c_and_modify(src, ctx)
    src = r9b_or_insert_with(src, ctx)
    src = r11_into_values(src, ctx)
    src = r18_any_position(src, ctx)
    src = r7_collect(src, ctx)
    src = r2_sum(src, ctx)
    src = r19_vec_elem_type(src, ctx)
    src = r12_skip_by_value(src, ctx)
    src = r3_loops(src, ctx, map_locals_of(src))
    src = r11_hoist_map_iter(src, ctx, map_locals_of(src))
    src = r3_loops(src, ctx, map_locals_of(src))
    return src
