"""Parse contracts/<unit>.vc, extract the named source from /repo, splice contracts, emit one Verus file."""
import os, re, hashlib, difflib
from . import rules
from .scan import tokenize, code_toks, match_close, parse_items, find_fn, line_of, skip_angles
from .rules import Unsupported

REPO = os.environ.get('VERIF_REPO', '/repo')
ROOT = os.path.dirname(os.path.dirname(os.path.abspath(__file__)))


class Clause:
    def __init__(self, kind, tag, text, fn, loop=None, src_line=0):
        self.finding = None
        if tag and '!' in tag:
            tag, self.finding = tag.split('!', 1)
        self.kind, self.tag, self.text, self.fn, self.loop = kind, tag, text.strip(), fn, loop
        self.src_line = src_line
        self.id = None
        self.lines = None     # (start, end) in generated file

    @property
    def is_property(self):
        return self.tag is not None

    def props(self):
        if not self.tag: return []
        return sorted({t.split('.')[0] for t in self.tag.split(',')})


class LoopSpec:
    def __init__(self, regex, nth):
        self.regex, self.nth = regex, nth
        self.invariants = []; self.ensures = []; self.decreases = None
        self.except_break = []


class FnSpec:
    def __init__(self, path):
        self.path = path
        self.result = None
        self.requires = []; self.ensures = []; self.recommends = []
        self.loops = []
        self.proofs = []      # (where, regex, nth, text)
        self.decreases = None
        self.opts = set()
        self.witness = {}


class ModuleSpec:
    def __init__(self, path, file, mode, items, drop_variants):
        self.path, self.file, self.mode, self.items, self.drop_variants = path, file, mode, items, drop_variants
        self.raw = []


class UnitSpec:
    def __init__(self, name):
        self.name = name
        self.shims = []; self.specs = []
        self.modules = []; self.fns = []
        self.raw_root = []
        self.path = None


HEREDOC_OPEN = '<<<'
HEREDOC_CLOSE = '>>>'


def parse_vc(path):
    lines = open(path).read().split('\n')
    u = UnitSpec(os.path.splitext(os.path.basename(path))[0])
    u.path = path
    cur_fn = None; cur_loop = None; section = None; cur_clause = None
    i = 0

    def heredoc(i):
        buf = []
        i += 1
        while i < len(lines) and lines[i].strip() != HEREDOC_CLOSE:
            buf.append(lines[i]); i += 1
        return '\n'.join(buf), i

    def rx(s):
        m = re.search(r'/(.*)/(?:\s*#(\d+|last))?(?:\s+as\s+(\w+))?(?:\s+\[([^\]]+)\])?\s*(<<<)?\s*$', s)
        if not m: raise ValueError(f'{path}:{i+1}: expected /regex/')
        rx.alias = m.group(3); rx.tag = m.group(4)
        return m.group(1), (0 if m.group(2) == 'last' else int(m.group(2) or 1))   # 0: the last match

    while i < len(lines):
        raw = lines[i]
        s = raw.strip()
        if not s or s.startswith('#'):
            i += 1; continue
        w = s.split()
        kw = w[0]
        if kw == 'unit': u.name = w[1]
        elif kw == 'serves': u.serves = getattr(u, 'serves', []) + w[1:]
        elif kw == 'lemma':
            # `lemma <proof fn name> [TAG,TAG] description`: a spec-file lemma counted as an obligation (an L3 statement over proved contracts)
            ml = re.match(r'lemma\s+(\w+)\s+\[([^\]]+)\]\s*(.*)$', s)
            if not ml: raise ValueError(f'{path}:{i+1}: expected `lemma name [TAGS] text`')
            u.lemmas = getattr(u, 'lemmas', []) + [(ml.group(1), ml.group(2), ml.group(3), i + 1)]
        elif kw == 'shim': u.shims += w[1:]
        elif kw == 'spec': u.specs += w[1:]
        elif kw == 'module':
            # module <path> from <file> whole | items A B ... [drop_variants X Y]
            mp = w[1]
            if len(w) == 3 and w[2] == 'empty':
                u.modules.append(ModuleSpec(mp, None, 'empty', [], [])); i += 1; cur_fn = None; continue
            f = w[3]; mode = w[4]
            rest = w[5:]
            items = []; dv = []
            tgt = items
            for x in rest:
                if x == 'drop_variants': tgt = dv; continue
                tgt.append(x.replace('~', ' '))
            u.modules.append(ModuleSpec(mp, f, mode, items, dv))
            cur_fn = None
        elif kw == 'raw':
            mp = w[1]
            text, i = heredoc(i)
            if mp == 'crate': u.raw_root.append(text)
            else:
                ms = [m for m in u.modules if m.path == mp]
                if not ms: raise ValueError(f'{path}:{i+1}: raw for unknown module {mp}')
                ms[-1].raw.append(text)
        elif kw == 'fn':
            cur_fn = FnSpec(s[2:].strip()); u.fns.append(cur_fn); cur_loop = None; section = None
        elif kw == 'result': cur_fn.result = w[1]
        elif kw == 'opt' and cur_fn is None: u.opts = getattr(u, 'opts', set()) | set(w[1:])
        elif kw == 'opt': cur_fn.opts |= set(w[1:])
        elif kw in ('requires', 'ensures', 'recommends') and len(w) == 1:
            if cur_loop is not None and kw == 'ensures': section = ('loop_ensures', cur_loop)
            else:
                cur_loop = None if kw != 'ensures' else cur_loop
                section = (kw, cur_fn)
        elif kw == 'fn_ensures':
            cur_loop = None; section = ('ensures', cur_fn)
        elif kw == 'loop':
            r, n = rx(s)
            cur_loop = LoopSpec(r, n); cur_loop.alias = rx.alias; cur_fn.loops.append(cur_loop); section = None
        elif kw == 'invariant' and len(w) == 1: section = ('invariant', cur_loop)
        elif kw == 'invariant_except_break' and len(w) == 1: section = ('invariant_except_break', cur_loop)
        elif kw == 'decreases':
            d = s[len('decreases'):].strip()
            if cur_loop is not None: cur_loop.decreases = d
            else: cur_fn.decreases = d
        elif kw == 'proof':
            where = w[1]
            r, n = rx(s)
            ptag = rx.tag; pline = i + 1
            text, i = heredoc(i)
            cur_fn.proofs.append((where, r, n, text))
            if ptag:
                cl = Clause('assert', ptag, text, cur_fn.path, None, pline)
                cl.proof_index = len(cur_fn.proofs) - 1
                cur_fn.tagged_proofs = getattr(cur_fn, 'tagged_proofs', []) + [cl]
        elif kw == 'end':
            cur_loop = None; section = None
        elif s[0] in '[*' and section is not None:
            tag = None
            if s[0] == '[':
                k = s.index(']'); tag = s[1:k].strip(); body = s[k + 1:]
            else:
                body = s[1:]
            kind, owner = section
            cl = Clause(kind, tag, body, cur_fn.path, cur_loop if kind in ('invariant', 'loop_ensures', 'invariant_except_break') else None, i + 1)
            cur_clause = cl
            if kind == 'requires': owner.requires.append(cl)
            elif kind == 'ensures': owner.ensures.append(cl)
            elif kind == 'recommends': owner.recommends.append(cl)
            elif kind == 'invariant': owner.invariants.append(cl)
            elif kind == 'invariant_except_break': owner.except_break.append(cl)
            elif kind == 'loop_ensures': owner.ensures.append(cl)
        elif section is not None and cur_clause is not None and raw.startswith((' ', '\t')):
            cur_clause.text += '\n' + s
        else:
            raise ValueError(f'{path}:{i+1}: cannot parse: {s}')
        i += 1
    if 'noiso-all' in getattr(u, 'opts', set()):
        # unit-wide: every contracted function with loops is verified with loop isolation off, so that facts about locals a loop does
        # not modify (e.g. a value a harmless refactoring hoisted out of the loop) stay visible in its body without a new invariant
        for f in u.fns:
            if f.loops and 'iso' not in f.opts and not any(o.startswith('noiso') for o in f.opts) and not any(l.except_break or l.ensures for l in f.loops): f.opts.add('auto-noiso')
    return u


# --------------------------------------------------------------------------------------

class Generated:
    def __init__(self):
        self.text = ''
        self.clauses = []          # Clause objects with .lines set
        self.fn_ranges = []        # (qualified name, start_line, end_line)
        self.log = []              # rewrite log
        self.functions = []        # dicts: name, file, lines, sha256
        self.diff = ''
        self.twin_points = []      # (id, line, desc)
        self.trusted = []


def _extract_items(src, names, drop_variants):
    items = parse_items(src)
    out = []
    for nm in names:
        found = [it for it in items if it.name == nm and it.kind in ('struct', 'enum', 'fn', 'const', 'type', 'static')]
        impls = [it for it in items if it.kind == 'impl' and nm.startswith('impl:') and it.impl_of == nm[5:] and it.trait is None]
        timpls = [it for it in items if it.kind == 'impl' and nm.startswith('impl:') and ' for ' in nm and it.trait is not None and (it.trait + ' for ' + it.impl_of) == nm[5:]]
        if nm.startswith('mod:'):
            found = [it for it in items if it.kind == 'mod' and it.name == nm[4:]]
        if nm.startswith('fn:'):
            ty, fname = nm[3:].split('::')
            hit = None
            for it in items:
                if it.kind == 'impl' and it.trait is None and it.impl_of == ty:
                    for ch in it.children:
                        if ch.kind == 'fn' and ch.name == fname: hit = ch
            if hit is None: raise Unsupported(f'lost anchor: item {nm} not found')
            out.append(f'impl {ty} {{\n' + src[hit.attrs_start:hit.end] + '\n}')
            continue
        allf = found + impls + timpls
        if not allf:
            raise Unsupported(f'lost anchor: item {nm} not found')
        for it in allf:
            if it.kind == 'mod' and it.body_open is not None:
                out.append(src[it.attrs_start:it.body_open + 1] + '\n#[allow(unused_imports)] use crate::*;\n' + src[it.body_open + 1:it.end])
            else:
                out.append(src[it.attrs_start:it.end])
    text = '\n\n'.join(out)
    return text


def _drop_variants(text, variants, ctx):
    for v in variants:
        ct = code_toks(tokenize(text))
        hit = False
        for i, t in enumerate(ct):
            if t.k == 'id' and t.t == v and i + 1 < len(ct) and ct[i + 1].t in ('(', '{', ','):
                s = t.s
                # include preceding attributes
                j = i
                while j >= 2 and ct[j - 1].t == ']':
                    from .scan import match_open
                    o = match_open(ct, j - 1)
                    if o >= 1 and ct[o - 1].t == '#': j = o - 1; s = ct[j].s
                    else: break
                e = i + 1
                if ct[e].t in ('(', '{'): e = match_close(ct, e) + 1
                if e < len(ct) and ct[e].t == ',': e += 1
                ctx.log.append(('R0', re.sub(r'\s+', ' ', text[s:ct[e - 1].e]), '(variant with A-ext payload dropped)'))
                text = text[:s] + text[ct[e - 1].e:]
                hit = True
                break
        if not hit: raise Unsupported(f'lost anchor: variant {v}')
    return text


def _fn_header(src, it):
    """Return dict with positions for fn item `it` in src: sig end (body open), ret type span."""
    toks = tokenize(src[it.start:it.body_open])
    for t in toks: t.s += it.start; t.e += it.start
    ct = code_toks(toks)
    # find param list: first '(' after name (skip generics)
    i = 0
    while ct[i].t != 'fn': i += 1
    i += 2
    if ct[i].t == '<': i = skip_angles(ct, i)
    assert ct[i].t == '(', ct[i]
    pc = match_close(ct, i)
    ret = None
    j = pc + 1
    if j + 1 < len(ct) and ct[j].t == '-' and ct[j + 1].t == '>':
        rs = ct[j + 2].s
        k = j + 2
        while k < len(ct) and not (ct[k].k == 'id' and ct[k].t in ('where', 'requires', 'ensures', 'decreases', 'recommends')):
            if ct[k].t in ('(', '['): k = match_close(ct, k)
            k += 1
        re_ = ct[k - 1].e
        ret = (rs, re_)
    return {'params_end': ct[pc].e, 'ret': ret}


def _find_loops(src, body_open, body_end):
    """All loop headers inside a fn body: list of (kw_pos, header_text, brace_pos)."""
    toks = tokenize(src[body_open:body_end])
    for t in toks: t.s += body_open; t.e += body_open
    ct = code_toks(toks)
    out = []
    for i, t in enumerate(ct):
        if t.k == 'id' and t.t in ('for', 'while', 'loop') and i + 1 < len(ct) and ct[i + 1].t != '<':
            if i > 0 and ct[i - 1].t == '.': continue
            j = i + 1
            # skip `let PAT =` patterns in while-let
            while j < len(ct) and ct[j].t != '{':
                if ct[j].t in ('(', '['): j = match_close(ct, j)
                elif ct[j].t == 'let':
                    j += 1
                    while j < len(ct) and ct[j].t != '=':
                        if ct[j].t in ('(', '[', '{'): j = match_close(ct, j)
                        j += 1
                elif ct[j].k == 'id' and ct[j].t in ('invariant', 'decreases', 'ensures', 'invariant_except_break'):
                    break
                j += 1
            if j >= len(ct): continue
            if ct[j].t != '{':
                # loop with a generated decreases clause: invariants go before it
                k = j
                while k < len(ct) and ct[k].t != '{':
                    if ct[k].t in ('(', '['): k = match_close(ct, k)
                    k += 1
                gen_dec = src[ct[j - 1].e:ct[j].s].strip() == '/*DEC*/' and ct[j].t == 'decreases'
                out.append((t.s, src[t.s:ct[j].s], ct[k].s, not gen_dec, ct[j].s if gen_dec else ct[k].s))
            else:
                out.append((t.s, src[t.s:ct[j].s], ct[j].s, False, ct[j].s))
    return out


MARK = '/*@%s@*/'


def splice_module(text, mod_path, fnspecs, gen, twin=False):
    """Insert contract clauses into module text. Returns new text."""
    items = parse_items(text)
    edits = []
    for fs in fnspecs:
        rel = fs.path[len(mod_path) + 2:] if mod_path else fs.path
        parts = rel.split('::')
        it = find_fn(items, parts)
        if it is None or it.body_open is None:
            raise Unsupported(f'lost anchor: function {fs.path} not found in extracted module {mod_path}')
        hdr = _fn_header(text, it)
        # result binder
        if fs.result:
            if hdr['ret'] is None:
                raise Unsupported(f'{fs.path}: result binder on fn without return type')
            rs, re_ = hdr['ret']
            edits.append((rs, re_, f'({fs.result}: {text[rs:re_].strip()})'))
        spec = ''
        def emit(kind, clauses):
            nonlocal spec
            if not clauses: return
            spec += f'\n        {kind}'
            for c in clauses:
                spec += '\n            ' + (MARK % c.id) + ' ' + c.text.replace('\n', '\n              ') + ','
        if 'noiso' in fs.opts or ('auto-noiso' in fs.opts and not twin):
            # (unit-wide `opt noiso-all`: the reachability-twin variant of the file keeps these loops isolated - each loop body is then its
            #  own query, so one failed assert(false) is not assumed by the next twin; the twins guard requires/invariants against
            #  contradiction, which does not depend on isolation)
            # pre-loop facts about unmodified locals stay visible in loop bodies: no 'link' invariants naming locals
            edits.append((it.start, it.start, '#[verifier::loop_isolation(false)] '))
        emit('requires', fs.requires)
        emit('ensures', fs.ensures)
        if fs.decreases: spec += f'\n        decreases {fs.decreases}'
        if spec:
            edits.append((it.body_open, it.body_open, spec.lstrip('\n') + '\n    ' if False else spec + '\n    '))
        noiso = [o for o in fs.opts if o.startswith('noiso')]
        if len(noiso) > 1: raise Unsupported(f'{fs.path}: at most one non-isolated loop per function (reachability twins share its query)')
        hides = any(pt[3].lstrip().startswith('hide(') for pt in fs.proofs)   # `hide(f);` must stay the first statement of the body: no entry twin then (loop twins cover it)
        if twin and not noiso and not hides:
            # (a function with a non-isolated loop has no entry twin: a failed assert(false) there would be assumed in the
            #  loop's query, which is the same one; the loop-body twin subsumes it)
            tid = 'TWIN:fn:' + fs.path
            edits.append((it.body_open + 1, it.body_open + 1, f'\n        proof {{ {MARK % tid} assert(false); }}'))
            gen.twin_points.append(tid)
        # loops
        subst = {}
        if fs.loops:
            loops = _find_loops(text, it.body_open, it.end)
            for ls in fs.loops:
                cands = [l for l in loops if re.search(ls.regex, re.sub(r'\s+', ' ', l[1]))]
                if len(cands) >= ls.nth and getattr(ls, 'alias', None):
                    kw0, ht0 = cands[ls.nth - 1][0], cands[ls.nth - 1][1]
                    mv = re.search(r'__[a-z]+\d+', ht0) or (re.findall(r'__[a-z]+\d+', text[max(it.body_open, kw0 - 80):kw0]) or [None])[-1]
                    if mv is None: raise Unsupported(f'lost anchor: generated variable for loop alias {ls.alias} in {fs.path}')
                    subst['$' + ls.alias] = mv if isinstance(mv, str) else mv.group(0)
                    allv = re.findall(r'__[a-z]+\d+', ht0)
                    uniq = []
                    for v_ in allv:
                        if v_ not in uniq: uniq.append(v_)
                    if len(uniq) > 1: subst['$' + ls.alias + '2'] = uniq[1]
            def sub(tx):
                for k_, v_ in sorted(subst.items(), key=lambda kv: -len(kv[0])): tx = tx.replace(k_, v_)
                return tx
            for ls in fs.loops:
                for c in ls.invariants + ls.ensures + ls.except_break: c.text = sub(c.text)
                if ls.decreases: ls.decreases = sub(ls.decreases)
            fs.proofs = [(w_, r_, n_, sub(t_)) for (w_, r_, n_, t_) in fs.proofs]
            for ls in fs.loops:
                cands = [l for l in loops if re.search(ls.regex, re.sub(r'\s+', ' ', l[1]))]
                if len(cands) < ls.nth:
                    raise Unsupported(f'lost anchor: loop /{ls.regex}/ #{ls.nth} in {fs.path} (found {len(cands)})')
                if ls.nth == 1 and len(cands) > 1 and not ls.regex.endswith('$'):
                    pass
                kw, htext, brace, annotated, ins = cands[ls.nth - 1]
                if annotated: raise Unsupported(f'loop in {fs.path} already annotated')
                sp = ''
                if ls.except_break:
                    sp += '\n            invariant_except_break'
                    for c in ls.except_break: sp += '\n                ' + (MARK % c.id) + ' ' + c.text.replace('\n', '\n                  ') + ','
                if ls.invariants:
                    sp += '\n            invariant'
                    for c in ls.invariants: sp += '\n                ' + (MARK % c.id) + ' ' + c.text.replace('\n', '\n                  ') + ','
                if ls.ensures:
                    sp += '\n            ensures'
                    for c in ls.ensures: sp += '\n                ' + (MARK % c.id) + ' ' + c.text.replace('\n', '\n                  ') + ','
                if ls.decreases:
                    if ins != brace: raise Unsupported(f'{fs.path}: decreases given for a loop that already has a generated one')
                    sp += f'\n            decreases {ls.decreases}'
                edits.append((ins, ins, sp + '\n        '))
                if f'noiso:{fs.loops.index(ls) + 1}' in fs.opts:
                    # this loop sees the facts established before it (no 'link' invariants naming unmodified locals)
                    edits.append((kw, kw, '#[verifier::loop_isolation(false)] '))
                if htext.startswith('for') and (ls.invariants or ls.except_break):
                    mfor = re.match(r'for\s+(.*?)\s+in\s+', htext, re.S)
                    # R10: name the ghost iterator so invariants can mention it
                    pos_in = kw + mfor.end()
                    edits.append((pos_in, pos_in, 'it: '))
                if twin and (ls.invariants or ls.except_break):
                    tid = f'TWIN:loop:{fs.path}:/{ls.regex}/#{ls.nth}'
                    edits.append((brace + 1, brace + 1, f'\n        proof {{ {MARK % tid} assert(false); }}'))
                    gen.twin_points.append(tid)
        # proof insertions: line based inside fn
        for n_p, (where, rgx, nth, ptext) in enumerate(fs.proofs):
            seg = text[it.body_open:it.end]
            pos = it.body_open
            hits = []
            for ln in seg.split('\n'):
                if re.search(rgx, ln): hits.append((pos, pos + len(ln)))
                pos += len(ln) + 1
            if len(hits) < max(nth, 1):
                raise Unsupported(f'lost anchor: proof anchor /{rgx}/ #{nth} in {fs.path}')
            ls_, le_ = hits[nth - 1]   # (nth == 0: the last match)
            # a loop that rule R3c had to restructure (`for` over a range with `continue`) has paths that skip proof blocks written for
            # the straight-line body: a failed invariant there would say nothing about the code (false alarm on a harmless reshaping)
            for mr in re.finditer(r'while /\*for [^*]*\*/', text[it.body_open:it.end]):
                lb = text.index('{', it.body_open + mr.end())
                from .scan import find_close_pos
                le2 = find_close_pos(text, lb)
                if lb < ls_ < le2:
                    raise Unsupported(f'{fs.path}: a proof block of the contract sits inside a for-loop that now uses `continue` (restructured body)')
            pid = f'PROOF:{fs.path}:{n_p}'
            for tc in getattr(fs, 'tagged_proofs', []):
                if tc.proof_index == n_p: pid = tc.id
            block = f'\n        {MARK % pid} ' + ptext.strip('\n') + '\n'
            if where == 'before': edits.append((ls_, ls_, block.lstrip('\n') ))
            elif where == 'after': edits.append((le_, le_, block.rstrip('\n')))
            elif where == 'replace_line':
                edits.append((ls_, le_, block.strip('\n')))
            else: raise ValueError('proof where: ' + where)
    return rules.apply_edits(text, edits)


def build(unit, out_dir, twin=False, findings=False):
    """Assemble the Verus file for a unit. Returns Generated."""
    gen = Generated()
    ctx = rules.Ctx()
    ctx.fmt_structured = 'fmt-structured' in getattr(unit, 'opts', set())
    # clause ids
    n = 0
    for fs in unit.fns:
        # clauses recording a known defect (`[TAG!Fn]`) exist only in the `findings` variant of the unit
        def keep(c): return findings or not c.finding
        fs.requires = [c for c in fs.requires if keep(c)]; fs.ensures = [c for c in fs.ensures if keep(c)]
        for l in fs.loops:
            l.invariants = [c for c in l.invariants if keep(c)]; l.ensures = [c for c in l.ensures if keep(c)]; l.except_break = [c for c in l.except_break if keep(c)]
        if getattr(fs, 'tagged_proofs', None):
            dropped = [c for c in fs.tagged_proofs if not keep(c)]
            if dropped:
                di = {c.proof_index for c in dropped}
                fs.proofs = [(w, r, nn, (t if i_ not in di else '')) for i_, (w, r, nn, t) in enumerate(fs.proofs)]
                fs.tagged_proofs = [c for c in fs.tagged_proofs if keep(c)]
        if 'inherit' in fs.opts:
            # loop invariants of this function carry the same properties as its post-conditions
            tags = []
            for c in fs.ensures:
                for t in (c.tag or '').split(','):
                    if t and t not in tags: tags.append(t)
            if tags:
                for l in fs.loops:
                    for c in l.invariants + l.ensures + l.except_break:
                        if not c.tag: c.tag = ','.join(tags)
        allc = fs.requires + fs.ensures + [c for l in fs.loops for c in l.invariants + l.ensures + l.except_break] + getattr(fs, 'tagged_proofs', [])
        for c in allc:
            n += 1
            c.id = f'K{n}'
            gen.clauses.append(c)
    lemma_clauses = []
    for (lname, ltags, ltext, lline) in getattr(unit, 'lemmas', []):
        n += 1
        c = Clause('lemma', ltags, ltext or ('lemma ' + lname), 'lemma ' + lname, None, lline)
        c.id = f'K{n}'; c.lemma = lname
        gen.clauses.append(c); lemma_clauses.append(c)
    parts = []
    for s in unit.shims:
        parts.append(open(os.path.join(ROOT, 'shim', s + '.rs')).read())
    for s in unit.specs:
        stext = open(os.path.join(ROOT, 'spec', s + '.rs')).read()
        for c in lemma_clauses:
            ml = re.search(r'^pub proof fn ' + re.escape(c.lemma) + r'\b', stext, re.M)
            if ml and not getattr(c, 'placed', False):
                stext = stext[:ml.start()] + (MARK % c.id) + ' ' + stext[ml.start():]; c.placed = True
        parts.append(stext)
    for c in lemma_clauses:
        if not getattr(c, 'placed', False): raise Unsupported(f'lost anchor: lemma {c.lemma} not found in the spec files of unit {unit.name}')
    for r in unit.raw_root:
        parts.append(r)
    # modules: build tree
    tree = {}
    originals = []
    for m in unit.modules:
        if m.mode == 'empty':
            src = ''
        else:
            fpath = os.path.join(REPO, m.file)
            if not os.path.exists(fpath): raise Unsupported(f'lost anchor: file {m.file}')
            src = open(fpath).read()
        if m.mode == 'empty': pass
        elif m.mode == 'items':
            src = _extract_items(src, m.items, m.drop_variants)
        elif m.mode != 'whole':
            raise ValueError('module mode ' + m.mode)
        orig = src
        n0 = len(ctx.log)
        if m.drop_variants: src = _drop_variants(src, m.drop_variants, ctx)
        src = rules.apply_all(src, ctx)
        fnspecs = [f for f in unit.fns if _owner_module(f.path, unit) == m.path and _file_of(f, unit, m)]
        for f in fnspecs: f._mod = m
        raw = '\n'.join(m.raw)
        text = src + ('\n' + raw if raw else '')
        text = splice_module(text, m.path, fnspecs, gen, twin)
        originals.append((m, orig, text, ctx.log[n0:]))
        node = tree
        segs = m.path.split('::') if m.path != 'crate' else []
        for sname in segs:
            node = node.setdefault('children', {}).setdefault(sname, {})
        node.setdefault('texts', []).append(text)
    for f in unit.fns:
        if not hasattr(f, '_mod'):
            raise Unsupported(f'contract for {f.path} has no module in unit {unit.name}')

    def render(node, depth):
        out = ''
        for t in node.get('texts', []): out += t + '\n'
        for name, ch in node.get('children', {}).items():
            out = f'pub mod {name} {{\n#[allow(unused_imports)] use crate::*;\n' + render(ch, depth + 1) + '\n}\n' + out
        return out
    body = render(tree, 0)
    header = 'verus! {\n'
    text = '\n'.join(parts) + '\n' + header + body + '\n} // verus!\nfn main() {}\n'
    # shim files each open/close their own verus! block
    # resolve markers -> lines
    gen.text = text
    lines = text.split('\n')
    marks = {}
    for ln, l in enumerate(lines, 1):
        for mm in re.finditer(r'/\*@(.*?)@\*/', l):
            marks[mm.group(1)] = ln
    for c in gen.clauses:
        if c.id not in marks: raise Unsupported(f'internal: clause {c.id} lost')
        st = marks[c.id]
        c.lines = (st, st + c.text.count('\n'))
        if c.kind == 'lemma':
            # the whole proof fn: up to the line that closes its body
            depth = 0; seen = False; end = st
            for ln2 in range(st - 1, len(lines)):
                depth += lines[ln2].count('{') - lines[ln2].count('}')
                if '{' in lines[ln2]: seen = True
                if seen and depth <= 0: end = ln2 + 1; break
            c.lines = (st, end)
    gen.marks = marks
    # fn ranges (for attribution of implicit obligations)
    gen.fn_ranges = _fn_ranges(text)
    gen.log = ctx.log
    # functions under contract
    for f in unit.fns:
        gen.functions.append(f.path)
    # diff
    d = []
    for m, orig, new, log in originals:
        if m.mode == 'empty': continue
        d.append(f'=== {m.file} -> mod {m.path} ({m.mode}{" " + " ".join(m.items) if m.items else ""})')
        for r, b, a in log:
            d.append(f'  [{r}] - {b}')
            if a: d.append(f'  [{r}] + {re.sub(chr(10), " ", a)}')
        clean = re.sub(r'/\*@.*?@\*/ ?', '', new)
        ud = difflib.unified_diff(orig.split('\n'), clean.split('\n'), 'repo:' + m.file, 'verified', lineterm='', n=1)
        d.extend(ud)
    gen.diff = '\n'.join(d)
    gen.orig_hashes = {m.file: hashlib.sha256(orig.encode()).hexdigest()[:16] for m, orig, _, _ in originals if m.file}
    return gen


def _owner_module(fn_path, unit):
    best = None
    for m in unit.modules:
        p = m.path
        if p == 'crate' or fn_path.startswith(p + '::'):
            if best is None or len(p) > len(best): best = p
    return best


def _file_of(f, unit, m):
    """When several module entries share one path (items from different files), pick by explicit hint."""
    same = [x for x in unit.modules if x.path == m.path]
    if len(same) == 1: return True
    if m.mode == 'empty': return False
    # choose the module whose source contains `fn <name>`
    name = f.path.split('::')[-1]
    src = open(os.path.join(REPO, m.file)).read()
    if not re.search(r'\bfn\s+%s\b' % re.escape(name), src): return False
    if m.mode == 'items':
        # the item list must cover it
        owner = f.path[len(m.path) + 2:].split('::')
        if len(owner) > 1:
            return any(i == 'impl:' + owner[0] or (i.startswith('impl:') and i.endswith(' for ' + owner[0])) for i in m.items)
        return name in m.items
    return True


def _fn_ranges(text):
    out = []
    def walk(items, prefix):
        for it in items:
            if it.kind == 'fn':
                out.append(('::'.join(prefix + [it.name]), line_of(text, it.start), line_of(text, it.end)))
            elif it.kind == 'mod':
                walk(it.children, prefix + [it.name])
            elif it.kind in ('impl', 'trait'):
                from .scan import impl_base_name
                nm = impl_base_name(it.impl_of) if it.kind == 'impl' else it.name
                if it.kind == 'impl' and it.trait:
                    nm = f'{it.trait.split("<")[0].split("::")[-1]} for {nm}'
                walk(it.children, prefix + [nm])
    # the file consists of several verus!{} blocks: parse inside each
    for m in re.finditer(r'verus!\s*\{', text):
        from .scan import find_close_pos
        end = find_close_pos(text, m.end() - 1)
        items = parse_items(text, m.end(), end - 1)
        walk(items, [])
    return out
