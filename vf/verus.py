"""Run Verus on a generated unit file and attribute every diagnostic to a clause / function."""
import json, os, re, subprocess, time

VERUS_ARGS = ['--edition', '2024', '--triggers-mode', 'silent', '--multiple-errors', '20', '--output-json', '--time', '--error-format=json']


class Diag:
    def __init__(self, message, lines, rendered, primary_line):
        self.message, self.lines, self.rendered, self.primary_line = message, lines, rendered, primary_line
        self.clause = None
        self.fn = None
        self.kind = None


class Result:
    def __init__(self):
        self.ok = False
        self.verified = 0; self.errors = 0
        self.diags = []
        self.unsupported = []      # compile / not-supported errors -> undecided
        self.fn_details = {}
        self.smt_ms = 0; self.total_ms = 0
        self.cmd = ''
        self.wall = 0.0
        self.raw_err = ''
        self.timed_out = False


def run(path, extra=(), timeout=900, rlimit=None):
    cmd = ['verus', path] + VERUS_ARGS + list(extra)
    if rlimit: cmd += ['--rlimit', str(rlimit)]
    r = Result()
    r.cmd = ' '.join(cmd)
    t0 = time.time()
    try:
        p = subprocess.run(cmd, capture_output=True, text=True, timeout=timeout, cwd=os.path.dirname(path))
        out, err = p.stdout, p.stderr
    except subprocess.TimeoutExpired as e:
        r.timed_out = True
        out = (e.stdout or b'').decode() if isinstance(e.stdout, bytes) else (e.stdout or '')
        err = (e.stderr or b'').decode() if isinstance(e.stderr, bytes) else (e.stderr or '')
    r.wall = time.time() - t0
    r.raw_err = err
    fname = os.path.basename(path)
    for line in err.split('\n'):
        line = line.strip()
        if not line.startswith('{'): continue
        try: d = json.loads(line)
        except Exception: continue
        if d.get('$message_type') != 'diagnostic': continue
        if d.get('level') not in ('error',): continue
        msg = d.get('message', '')
        if msg.startswith('aborting due to'): continue
        lines = []
        prim = None
        for sp in d.get('spans', []):
            if sp.get('file_name') == fname or sp.get('file_name', '').endswith('/' + fname):
                lines.append((sp['line_start'], sp['line_end'], sp.get('is_primary', False), sp.get('label')))
                if sp.get('is_primary') and prim is None: prim = sp['line_start']
        for ch in d.get('children', []):
            for sp in ch.get('spans', []):
                if sp.get('file_name') == fname:
                    lines.append((sp['line_start'], sp['line_end'], False, sp.get('label')))
        dg = Diag(msg, lines, d.get('rendered', ''), prim)
        dg.code = (d.get('code') or {}).get('code') if d.get('code') else None
        r.diags.append(dg)
    try:
        j = json.loads(out[out.index('{'):]) if '{' in out else {}
    except Exception:
        j = {}
    vr = j.get('verification-results', {})
    r.verified = vr.get('verified', 0); r.errors = vr.get('errors', 0)
    r.ok = bool(vr.get('success'))
    r.vir_error = vr.get('encountered-vir-error', False)
    r.have_results = bool(vr)
    tm = j.get('times-ms', {})
    r.total_ms = tm.get('total', 0)
    smt = tm.get('smt', {})
    r.smt_ms = smt.get('total', 0) if isinstance(smt, dict) else 0
    for mod in (smt.get('smt-run-module-times', []) if isinstance(smt, dict) else []):
        for fb in mod.get('function-breakdown', []):
            r.fn_details[fb['function']] = {'ms': fb.get('time', 0), 'rlimit': fb.get('rlimit', 0), 'success': fb.get('success')}
    fd = j.get('func-details')
    if isinstance(fd, dict):
        r.func_details = fd
    return r


VERIFICATION_MSGS = (
    'postcondition not satisfied', 'precondition not satisfied', 'precondition not met', 'assertion failed', 'invariant not satisfied',
    'loop invariant not satisfied', 'possible arithmetic underflow/overflow', 'possible division by zero',
    'decreases not satisfied', 'index out of bounds', 'unreachable', 'recommendation not met', 'loop ensures not satisfied',
    'possible bit shift', 'assertion not satisfied', 'failed', 'could not prove termination', 'rlimit', 'resource limit',
    'requires not satisfied',   # the hypothesis list of an `assert ... by(nonlinear_arith) requires ...` inside a proof block
)


def classify(diags, gen):
    """Attach clause / fn / kind to each diagnostic. Returns (verification_diags, unsupported_diags)."""
    clause_by_line = {}
    for c in gen.clauses:
        for ln in range(c.lines[0], c.lines[1] + 1): clause_by_line[ln] = c
    ver, unsup = [], []
    for d in diags:
        m = d.message.lower()
        is_ver = any(k in m for k in VERIFICATION_MSGS) and d.code is None
        # clause attribution: any span touching a clause line
        for (a, b, prim, label) in d.lines:
            for ln in range(a, b + 1):
                if ln in clause_by_line:
                    # prefer the span labelled as the failed clause
                    if d.clause is None or (label and 'failed' in label):
                        d.clause = clause_by_line[ln]
        pl = d.primary_line or (d.lines[0][0] if d.lines else None)
        if pl is not None:
            for name, a, b in gen.fn_ranges:
                if a <= pl <= b:
                    if d.fn is None or True: d.fn = name
        if 'rlimit' in m or 'resource limit' in m or 'timed out' in m: d.kind = 'rlimit'
        elif 'postcondition' in m: d.kind = 'ensures'
        elif 'invariant' in m: d.kind = 'invariant'
        elif 'precondition' in m: d.kind = 'precondition'
        elif 'assertion' in m or 'requires not satisfied' in m: d.kind = 'assert'
        elif 'overflow' in m: d.kind = 'overflow'
        elif 'decreases' in m or 'termination' in m: d.kind = 'decreases'
        else: d.kind = 'other'
        (ver if is_ver else unsup).append(d)
    return ver, unsup
