// ---- shim/date.rs : chrono::NaiveDate as a day number (assumption A-date; axioms checked by Kani unit K-chrono) ----
verus! {

#[verifier::external_body]
pub struct NaiveDate { _p: u8 }
impl NaiveDate { pub uninterp spec fn d(&self) -> int; }
impl Copy for NaiveDate {}
impl Clone for NaiveDate {
    #[verifier::external_body]
    fn clone(&self) -> (r: Self) ensures r == *self { *self }
}
pub broadcast axiom fn date_ext(a: NaiveDate, b: NaiveDate)
    ensures #[trigger] a.d() == #[trigger] b.d() ==> a == b;
impl PartialEqSpecImpl for NaiveDate {
    open spec fn obeys_eq_spec() -> bool { true }
    open spec fn eq_spec(&self, other: &NaiveDate) -> bool { self.d() == other.d() }
}
impl PartialEq for NaiveDate {
    #[verifier::external_body]
    fn eq(&self, other: &NaiveDate) -> (r: bool) ensures r == (self.d() == other.d()) { unimplemented!() } }
impl Eq for NaiveDate {}
impl PartialOrdSpecImpl for NaiveDate {
    open spec fn obeys_partial_cmp_spec() -> bool { true }
    open spec fn partial_cmp_spec(&self, other: &NaiveDate) -> Option<core::cmp::Ordering> {
        if self.d() < other.d() { Some(core::cmp::Ordering::Less) }
        else if self.d() == other.d() { Some(core::cmp::Ordering::Equal) }
        else { Some(core::cmp::Ordering::Greater) }
    }
}
impl PartialOrd for NaiveDate {
    #[verifier::external_body]
    fn partial_cmp(&self, other: &NaiveDate) -> (r: Option<core::cmp::Ordering>)
      ensures r == (if self.d() < other.d() { Some(core::cmp::Ordering::Less) }
        else if self.d() == other.d() { Some(core::cmp::Ordering::Equal) }
        else { Some(core::cmp::Ordering::Greater) })
    { unimplemented!() } }

#[verifier::external_body]
pub struct TimeDelta { _p: u8 }
impl TimeDelta {
    pub uninterp spec fn days(&self) -> int;
    #[verifier::external_body]
    pub fn num_days(&self) -> (r: i64) ensures r as int == self.days() { unimplemented!() }
}
impl SubSpecImpl for NaiveDate {
    open spec fn obeys_sub_spec() -> bool { false }
    open spec fn sub_req(self, rhs: NaiveDate) -> bool { true }
    uninterp spec fn sub_spec(self, rhs: NaiveDate) -> TimeDelta;
}
impl core::ops::Sub for NaiveDate { type Output = TimeDelta;
    #[verifier::external_body]
    fn sub(self, rhs: NaiveDate) -> (r: TimeDelta) ensures r.days() == self.d() - rhs.d() { unimplemented!() } }

/// day numbers of representable dates form the interval [min_day, max_day]
pub uninterp spec fn min_day() -> int;
pub uninterp spec fn max_day() -> int;
pub broadcast axiom fn ax_range(x: NaiveDate) ensures min_day() <= #[trigger] x.d() <= max_day();
/// calendar: civil(y, m, dd) is the day number of that date when it exists
pub uninterp spec fn civil(y: int, m: int, dd: int) -> int;
pub uninterp spec fn civil_valid(y: int, m: int, dd: int) -> bool;
pub uninterp spec fn year_of(d: int) -> int;
pub uninterp spec fn month_of(d: int) -> int;
pub uninterp spec fn day_of(d: int) -> int;
pub const MIN_YEAR: i32 = -262143;
pub const MAX_YEAR: i32 = 262142;

/// Calendar axioms (each is a Kani harness over the real chrono in unit K-chrono; table: shim/date_axioms.toml)
pub broadcast axiom fn ax_ymd(x: NaiveDate)
    ensures civil_valid(#[trigger] year_of(x.d()), month_of(x.d()), day_of(x.d())),
        civil(year_of(x.d()), month_of(x.d()), day_of(x.d())) == x.d(),
        1 <= month_of(x.d()) <= 12, 1 <= day_of(x.d()) <= 31,
        MIN_YEAR <= year_of(x.d()) <= MAX_YEAR;
pub broadcast axiom fn ax_apr(y: int)
    ensures MIN_YEAR <= y <= MAX_YEAR ==> civil_valid(y, 4, 5) && civil_valid(y, 4, 6) && #[trigger] civil(y, 4, 6) == civil(y, 4, 5) + 1;
/// lexicographic order on (y, m, d) is the order on day numbers
pub broadcast axiom fn ax_order(y1: int, m1: int, d1: int, y2: int, m2: int, d2: int)
    requires civil_valid(y1, m1, d1), civil_valid(y2, m2, d2)
    ensures (#[trigger] civil(y1, m1, d1) < #[trigger] civil(y2, m2, d2)) <==> (y1 < y2 || (y1 == y2 && (m1 < m2 || (m1 == m2 && d1 < d2))));

impl NaiveDate {
    #[verifier::external_body]
    pub fn year(&self) -> (r: i32) ensures r as int == year_of(self.d()) { unimplemented!() }
    #[verifier::external_body]
    pub fn month(&self) -> (r: u32) ensures r as int == month_of(self.d()) { unimplemented!() }
    #[verifier::external_body]
    pub fn day(&self) -> (r: u32) ensures r as int == day_of(self.d()) { unimplemented!() }
    /// ISO week-numbering year (differs from year() around New Year): uninterpreted
    #[verifier::external_body]
    pub fn iso_week(&self) -> (r: IsoWeek) ensures r.y() == iso_year_of(self.d()) { unimplemented!() }
    #[verifier::external_body]
    pub fn ordinal(&self) -> (r: u32) ensures 1 <= r <= 366 { unimplemented!() }
    #[verifier::external_body]
    pub fn from_ymd_opt(y: i32, m: u32, dd: u32) -> (r: Option<NaiveDate>)
        ensures match r {
            Some(x) => civil_valid(y as int, m as int, dd as int) && x.d() == civil(y as int, m as int, dd as int) && MIN_YEAR <= y <= MAX_YEAR,
            None => !(civil_valid(y as int, m as int, dd as int) && MIN_YEAR <= y <= MAX_YEAR),
        }
    { unimplemented!() }
    #[verifier::external_body]
    pub fn checked_sub_signed(self, delta: TimeDelta) -> (r: Option<NaiveDate>)
        ensures match r { Some(x) => x.d() == self.d() - delta.days(), None => self.d() - delta.days() < min_day() || self.d() - delta.days() > max_day() }
    { unimplemented!() }
    #[verifier::external_body]
    pub fn to_string(&self) -> String { unimplemented!() }
    /// A-ext: date text parsing
    #[verifier::external_body]
    pub fn parse_from_str(s: &str, fmt: &str) -> (r: Result<NaiveDate, ParseError>) { unimplemented!() }
}
#[verifier::external_body]
pub struct ParseError { _p: u8 }
pub uninterp spec fn iso_year_of(d: int) -> int;
#[verifier::external_body]
pub struct IsoWeek { _p: u8 }
impl IsoWeek {
    pub uninterp spec fn y(&self) -> int;
    #[verifier::external_body]
    pub fn year(&self) -> (r: i32) ensures r as int == self.y() { unimplemented!() }
}
pub mod chrono {
    use super::*;
    pub struct Duration { }
    impl Duration {
        #[verifier::external_body]
        pub fn days(k: i64) -> (r: TimeDelta) ensures r.days() == k as int { unimplemented!() }
    }
    pub use crate::NaiveDate;
}

} // verus!
