// ---- shim/sort.rs : slice::sort_by / sort_by_key / sort_unstable_by(_key) by contract (rule R8; std guarantee) ----
// The result is a rearrangement of the input (witnessed by an index permutation) ordered by the key;
// the stable variants also keep equal-key elements in their input order.
verus! {
/// total order on strings used by `String::cmp` (lexicographic); only its order axioms are needed
pub uninterp spec fn str_le(a: Seq<char>, b: Seq<char>) -> bool;
pub broadcast axiom fn str_le_total(a: Seq<char>, b: Seq<char>) ensures #[trigger] str_le(a, b) || str_le(b, a);
pub broadcast axiom fn str_le_antisym(a: Seq<char>, b: Seq<char>) ensures #[trigger] str_le(a, b) && str_le(b, a) ==> a == b;
pub broadcast axiom fn str_le_trans(a: Seq<char>, b: Seq<char>, c: Seq<char>) ensures #[trigger] str_le(a, b) && #[trigger] str_le(b, c) ==> str_le(a, c);
pub open spec fn date_ticker_le(d1: int, t1: Seq<char>, d2: int, t2: Seq<char>) -> bool { d1 < d2 || (d1 == d2 && str_le(t1, t2)) }

/// sort keys of the element types that the verified code sorts (implemented per unit for the real structs)
pub trait VerifKeyed {
    spec fn vk_date(&self) -> int;
    spec fn vk_ticker(&self) -> Seq<char>;
    spec fn vk_year(&self) -> int;
}
impl<T: VerifKeyed> VerifKeyed for &T {
    open spec fn vk_date(&self) -> int { (**self).vk_date() }
    open spec fn vk_ticker(&self) -> Seq<char> { (**self).vk_ticker() }
    open spec fn vk_year(&self) -> int { (**self).vk_year() }
}
/// `p` witnesses that `b` is a rearrangement of `a`
pub open spec fn is_perm_of<T>(a: Seq<T>, b: Seq<T>, p: Seq<int>) -> bool {
    &&& p.len() == a.len() && b.len() == a.len() && p.no_duplicates()
    &&& forall|i: int| 0 <= i < b.len() ==> 0 <= #[trigger] p[i] < a.len() && b[i] == a[p[i]]
}
pub open spec fn perm_facts<T>(a: Seq<T>, b: Seq<T>) -> bool {
    &&& b.len() == a.len() && b.to_multiset() == a.to_multiset()
    &&& exists|p: Seq<int>| #[trigger] is_perm_of(a, b, p)
    &&& forall|i: int| 0 <= i < b.len() ==> a.contains(#[trigger] b[i])
    &&& forall|i: int| 0 <= i < a.len() ==> b.contains(#[trigger] a[i])
}
pub open spec fn sorted_date<T: VerifKeyed>(s: Seq<T>) -> bool { forall|i: int, j: int| 0 <= i <= j < s.len() ==> (#[trigger] s[i]).vk_date() <= (#[trigger] s[j]).vk_date() }
pub open spec fn sorted_ticker<T: VerifKeyed>(s: Seq<T>) -> bool { forall|i: int, j: int| 0 <= i <= j < s.len() ==> str_le((#[trigger] s[i]).vk_ticker(), (#[trigger] s[j]).vk_ticker()) }
pub open spec fn sorted_year<T: VerifKeyed>(s: Seq<T>) -> bool { forall|i: int, j: int| 0 <= i <= j < s.len() ==> (#[trigger] s[i]).vk_year() <= (#[trigger] s[j]).vk_year() }
pub open spec fn sorted_date_ticker<T: VerifKeyed>(s: Seq<T>) -> bool {
    forall|i: int, j: int| 0 <= i <= j < s.len() ==> date_ticker_le((#[trigger] s[i]).vk_date(), s[i].vk_ticker(), (#[trigger] s[j]).vk_date(), s[j].vk_ticker())
}
/// stability for the date key: elements of one date keep their input order
pub open spec fn stable_date<T: VerifKeyed>(a: Seq<T>, b: Seq<T>) -> bool {
    exists|p: Seq<int>| #[trigger] is_perm_of(a, b, p) && forall|i: int, j: int| 0 <= i < j < b.len() && b[i].vk_date() == b[j].vk_date() ==> #[trigger] p[i] < #[trigger] p[j]
}

#[verifier::external_body]
pub fn verif_sort_by_date<T: VerifKeyed>(v: &mut Vec<T>)
    ensures perm_facts(old(v)@, final(v)@), sorted_date(final(v)@), stable_date(old(v)@, final(v)@) { unimplemented!() }
#[verifier::external_body]
pub fn verif_sort_by_key_date<T: VerifKeyed>(v: &mut Vec<T>)
    ensures perm_facts(old(v)@, final(v)@), sorted_date(final(v)@), stable_date(old(v)@, final(v)@) { unimplemented!() }
#[verifier::external_body]
pub fn verif_sort_unstable_by_date<T: VerifKeyed>(v: &mut Vec<T>)
    ensures perm_facts(old(v)@, final(v)@), sorted_date(final(v)@) { unimplemented!() }
#[verifier::external_body]
pub fn verif_sort_unstable_by_key_date<T: VerifKeyed>(v: &mut Vec<T>)
    ensures perm_facts(old(v)@, final(v)@), sorted_date(final(v)@) { unimplemented!() }
#[verifier::external_body]
pub fn verif_sort_by_ticker<T: VerifKeyed>(v: &mut Vec<T>)
    ensures perm_facts(old(v)@, final(v)@), sorted_ticker(final(v)@) { unimplemented!() }
#[verifier::external_body]
pub fn verif_sort_by_key_ticker<T: VerifKeyed>(v: &mut Vec<T>)
    ensures perm_facts(old(v)@, final(v)@), sorted_ticker(final(v)@) { unimplemented!() }
#[verifier::external_body]
pub fn verif_sort_unstable_by_ticker<T: VerifKeyed>(v: &mut Vec<T>)
    ensures perm_facts(old(v)@, final(v)@), sorted_ticker(final(v)@) { unimplemented!() }
#[verifier::external_body]
pub fn verif_sort_unstable_by_key_ticker<T: VerifKeyed>(v: &mut Vec<T>)
    ensures perm_facts(old(v)@, final(v)@), sorted_ticker(final(v)@) { unimplemented!() }
#[verifier::external_body]
pub fn verif_sort_by_key_period_start_year<T: VerifKeyed>(v: &mut Vec<T>)
    ensures perm_facts(old(v)@, final(v)@), sorted_year(final(v)@) { unimplemented!() }
#[verifier::external_body]
pub fn verif_sort_unstable_by_key_period_start_year<T: VerifKeyed>(v: &mut Vec<T>)
    ensures perm_facts(old(v)@, final(v)@), sorted_year(final(v)@) { unimplemented!() }
/// `v.is_sorted_by_key(|x| x.date)` / `(|x| x.ticker)`: the std definition (every adjacent pair, hence every pair, is in key order)
#[verifier::external_body]
pub fn verif_is_sorted_by_key_date<T: VerifKeyed>(v: &Vec<T>) -> (r: bool) ensures r == sorted_date(v@) { unimplemented!() }
#[verifier::external_body]
pub fn verif_is_sorted_by_key_ticker<T: VerifKeyed>(v: &Vec<T>) -> (r: bool) ensures r == sorted_ticker(v@) { unimplemented!() }
#[verifier::external_body]
pub fn verif_sort_by_date_ticker<T: VerifKeyed>(v: &mut Vec<T>)
    ensures perm_facts(old(v)@, final(v)@), sorted_date_ticker(final(v)@) { unimplemented!() }
} // verus!
