// ---- shim/currency.rs : iso_currency::Currency as an abstract code (A-ext) ----
verus! {
#[verifier::external_body]
pub struct Currency { _p: u8 }
impl Copy for Currency {}
impl Clone for Currency { #[verifier::external_body] fn clone(&self) -> (r: Self) ensures r == *self { *self } }
pub uninterp spec fn gbp_id() -> int;
impl Currency {
    pub uninterp spec fn id(&self) -> int;
    pub uninterp spec fn code_spec(&self) -> Seq<char>;
    #[verifier::external_body]
    pub exec const GBP: Currency ensures Self::GBP.id() == gbp_id() { Currency { _p: 0 } }
    #[verifier::external_body]
    pub fn code(&self) -> (r: &'static str) ensures r@ == self.code_spec() { unimplemented!() }
}
pub broadcast axiom fn currency_ext(a: Currency, b: Currency) ensures #[trigger] a.id() == #[trigger] b.id() ==> a == b;
impl PartialEqSpecImpl for Currency {
    open spec fn obeys_eq_spec() -> bool { true }
    open spec fn eq_spec(&self, other: &Currency) -> bool { self.id() == other.id() }
}
impl PartialEq for Currency {
    #[verifier::external_body]
    fn eq(&self, other: &Currency) -> (r: bool) ensures r == (self.id() == other.id()) { unimplemented!() } }
impl Eq for Currency {}
} // verus!
