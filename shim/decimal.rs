// ---- shim/decimal.rs : rust_decimal::Decimal as an exact real (assumption A-dec) ----
verus! {

#[verifier::external_body]
pub struct Decimal { _p: u8 }

pub enum RoundingStrategy { MidpointNearestEven, MidpointAwayFromZero, MidpointTowardZero, ToZero, AwayFromZero, ToNegativeInfinity, ToPositiveInfinity }

/// 10^n as a real
pub open spec fn pow10(n: nat) -> real decreases n { if n == 0 { 1real } else { 10real * pow10((n - 1) as nat) } }
pub open spec fn int_real(k: int) -> real { k as real }
/// r is x rounded to n places: a multiple of 10^-n within half a unit
pub open spec fn is_round_to(r: real, x: real, n: nat) -> bool {
    &&& exists|k: int| #[trigger] int_real(k) == r * pow10(n)
    &&& 2real * (r - x) * pow10(n) <= 1real
    &&& 2real * (x - r) * pow10(n) <= 1real
}
/// ties go away from zero
pub open spec fn is_round_half_away(r: real, x: real, n: nat) -> bool {
    &&& is_round_to(r, x, n)
    &&& (x >= 0real && 2real * (x - r) * pow10(n) == 1real ==> false)
    &&& (x <= 0real && 2real * (r - x) * pow10(n) == 1real ==> false)
}

impl Decimal {
    pub uninterp spec fn v(&self) -> real;
    #[verifier::external_body]
    pub exec const ZERO: Decimal ensures Self::ZERO.v() == 0real { Decimal { _p: 0 } }
    #[verifier::external_body]
    pub exec const ONE: Decimal ensures Self::ONE.v() == 1real { Decimal { _p: 1 } }
    #[verifier::external_body]
    pub fn min(self, o: Decimal) -> (r: Decimal)
        ensures r.v() == (if self.v() <= o.v() { self.v() } else { o.v() })
    { unimplemented!() }
    #[verifier::external_body]
    pub fn max(self, o: Decimal) -> (r: Decimal)
        ensures r.v() == (if self.v() >= o.v() { self.v() } else { o.v() })
    { unimplemented!() }
    #[verifier::external_body]
    pub fn abs(&self) -> (r: Decimal) ensures r.v() == (if self.v() >= 0real { self.v() } else { -self.v() }) { unimplemented!() }
    #[verifier::external_body]
    pub fn is_zero(&self) -> (r: bool) ensures r == (self.v() == 0real) { unimplemented!() }
    #[verifier::external_body]
    pub fn is_sign_positive(&self) -> (r: bool) ensures self.v() > 0real ==> r, self.v() < 0real ==> !r { unimplemented!() }
    #[verifier::external_body]
    pub fn is_sign_negative(&self) -> (r: bool) ensures self.v() < 0real ==> r, self.v() > 0real ==> !r { unimplemented!() }
    /// banker's rounding: only "within half a unit" is specified
    #[verifier::external_body]
    pub fn round_dp(&self, dp: u32) -> (r: Decimal) ensures is_round_to(r.v(), self.v(), dp as nat) { unimplemented!() }
    #[verifier::external_body]
    pub fn round_dp_with_strategy(&self, dp: u32, s: RoundingStrategy) -> (r: Decimal)
        ensures is_round_to(r.v(), self.v(), dp as nat),
            s == RoundingStrategy::MidpointAwayFromZero ==> is_round_half_away(r.v(), self.v(), dp as nat)
    { unimplemented!() }
    /// the decimal text of a value (A-dec: Display of rust_decimal is a function of the value and its scale; the scale is invisible here)
    pub uninterp spec fn dec_str(v: real) -> Seq<char>;
    #[verifier::external_body]
    pub fn to_string(&self) -> (r: String) ensures r@ == Decimal::dec_str(self.v()) { unimplemented!() }
}
impl Copy for Decimal {}
impl Clone for Decimal {
    #[verifier::external_body]
    fn clone(&self) -> (r: Self) ensures r == *self { *self }
}
impl Default for Decimal {
    #[verifier::external_body]
    fn default() -> (r: Decimal) ensures r.v() == 0real { unimplemented!() }
}
/// Decimal is modelled by its value: equal values are the same Decimal (scale is invisible, A-dec)
pub broadcast axiom fn dec_ext(a: Decimal, b: Decimal)
    ensures #[trigger] a.v() == #[trigger] b.v() ==> a == b;

impl AddSpecImpl for Decimal {
    open spec fn obeys_add_spec() -> bool { false }
    open spec fn add_req(self, rhs: Decimal) -> bool { true }
    uninterp spec fn add_spec(self, rhs: Decimal) -> Decimal;
}
impl core::ops::Add for Decimal { type Output = Decimal;
    #[verifier::external_body]
    fn add(self, rhs: Decimal) -> (r: Decimal) ensures r.v() == self.v() + rhs.v() { unimplemented!() } }
impl SubSpecImpl for Decimal {
    open spec fn obeys_sub_spec() -> bool { false }
    open spec fn sub_req(self, rhs: Decimal) -> bool { true }
    uninterp spec fn sub_spec(self, rhs: Decimal) -> Decimal;
}
impl core::ops::Sub for Decimal { type Output = Decimal;
    #[verifier::external_body]
    fn sub(self, rhs: Decimal) -> (r: Decimal) ensures r.v() == self.v() - rhs.v() { unimplemented!() } }
impl MulSpecImpl for Decimal {
    open spec fn obeys_mul_spec() -> bool { false }
    open spec fn mul_req(self, rhs: Decimal) -> bool { true }
    uninterp spec fn mul_spec(self, rhs: Decimal) -> Decimal;
}
impl core::ops::Mul for Decimal { type Output = Decimal;
    #[verifier::external_body]
    fn mul(self, rhs: Decimal) -> (r: Decimal) ensures r.v() == self.v() * rhs.v() { unimplemented!() } }
impl DivSpecImpl for Decimal {
    open spec fn obeys_div_spec() -> bool { false }
    open spec fn div_req(self, rhs: Decimal) -> bool { rhs.v() != 0real }
    uninterp spec fn div_spec(self, rhs: Decimal) -> Decimal;
}
impl core::ops::Div for Decimal { type Output = Decimal;
    #[verifier::external_body]
    fn div(self, rhs: Decimal) -> (r: Decimal) ensures r.v() == self.v() / rhs.v() { unimplemented!() } }
impl NegSpecImpl for Decimal {
    open spec fn obeys_neg_spec() -> bool { false }
    open spec fn neg_req(self) -> bool { true }
    uninterp spec fn neg_spec(self) -> Decimal;
}
impl core::ops::Neg for Decimal { type Output = Decimal;
    #[verifier::external_body]
    fn neg(self) -> (r: Decimal) ensures r.v() == -self.v() { unimplemented!() } }

impl AddAssignSpecImpl for Decimal {
    open spec fn obeys_add_assign_spec() -> bool { false }
    open spec fn add_assign_req(&self, rhs: Decimal) -> bool { true }
    uninterp spec fn add_assign_spec(&self, rhs: Decimal) -> &Decimal;
}
impl core::ops::AddAssign for Decimal {
    #[verifier::external_body]
    fn add_assign(&mut self, rhs: Decimal) ensures final(self).v() == old(self).v() + rhs.v() { unimplemented!() } }
impl<'a> AddAssignSpecImpl<&'a Decimal> for Decimal {
    open spec fn obeys_add_assign_spec() -> bool { false }
    open spec fn add_assign_req(&self, rhs: &'a Decimal) -> bool { true }
    uninterp spec fn add_assign_spec(&self, rhs: &'a Decimal) -> &Decimal;
}
impl<'a> core::ops::AddAssign<&'a Decimal> for Decimal {
    #[verifier::external_body]
    fn add_assign(&mut self, rhs: &'a Decimal) ensures final(self).v() == old(self).v() + rhs.v() { unimplemented!() } }
impl SubAssignSpecImpl for Decimal {
    open spec fn obeys_sub_assign_spec() -> bool { false }
    open spec fn sub_assign_req(&self, rhs: Decimal) -> bool { true }
    uninterp spec fn sub_assign_spec(&self, rhs: Decimal) -> &Decimal;
}
impl core::ops::SubAssign for Decimal {
    #[verifier::external_body]
    fn sub_assign(&mut self, rhs: Decimal) ensures final(self).v() == old(self).v() - rhs.v() { unimplemented!() } }
impl MulAssignSpecImpl for Decimal {
    open spec fn obeys_mul_assign_spec() -> bool { false }
    open spec fn mul_assign_req(&self, rhs: Decimal) -> bool { true }
    uninterp spec fn mul_assign_spec(&self, rhs: Decimal) -> &Decimal;
}
impl core::ops::MulAssign for Decimal {
    #[verifier::external_body]
    fn mul_assign(&mut self, rhs: Decimal) ensures final(self).v() == old(self).v() * rhs.v() { unimplemented!() } }
impl DivAssignSpecImpl for Decimal {
    open spec fn obeys_div_assign_spec() -> bool { false }
    open spec fn div_assign_req(&self, rhs: Decimal) -> bool { rhs.v() != 0real }
    uninterp spec fn div_assign_spec(&self, rhs: Decimal) -> &Decimal;
}
impl core::ops::DivAssign for Decimal {
    #[verifier::external_body]
    fn div_assign(&mut self, rhs: Decimal) ensures final(self).v() == old(self).v() / rhs.v() { unimplemented!() } }

impl<'a> SubAssignSpecImpl<&'a Decimal> for Decimal {
    open spec fn obeys_sub_assign_spec() -> bool { false }
    open spec fn sub_assign_req(&self, rhs: &'a Decimal) -> bool { true }
    uninterp spec fn sub_assign_spec(&self, rhs: &'a Decimal) -> &Decimal;
}
impl<'a> core::ops::SubAssign<&'a Decimal> for Decimal {
    #[verifier::external_body]
    fn sub_assign(&mut self, rhs: &'a Decimal) ensures final(self).v() == old(self).v() - rhs.v() { unimplemented!() } }
impl<'a> MulAssignSpecImpl<&'a Decimal> for Decimal {
    open spec fn obeys_mul_assign_spec() -> bool { false }
    open spec fn mul_assign_req(&self, rhs: &'a Decimal) -> bool { true }
    uninterp spec fn mul_assign_spec(&self, rhs: &'a Decimal) -> &Decimal;
}
impl<'a> core::ops::MulAssign<&'a Decimal> for Decimal {
    #[verifier::external_body]
    fn mul_assign(&mut self, rhs: &'a Decimal) ensures final(self).v() == old(self).v() * rhs.v() { unimplemented!() } }
impl<'a> DivAssignSpecImpl<&'a Decimal> for Decimal {
    open spec fn obeys_div_assign_spec() -> bool { false }
    open spec fn div_assign_req(&self, rhs: &'a Decimal) -> bool { rhs.v() != 0real }
    uninterp spec fn div_assign_spec(&self, rhs: &'a Decimal) -> &Decimal;
}
impl<'a> core::ops::DivAssign<&'a Decimal> for Decimal {
    #[verifier::external_body]
    fn div_assign(&mut self, rhs: &'a Decimal) ensures final(self).v() == old(self).v() / rhs.v() { unimplemented!() } }

impl PartialEqSpecImpl for Decimal {
    open spec fn obeys_eq_spec() -> bool { true }
    open spec fn eq_spec(&self, other: &Decimal) -> bool { self.v() == other.v() }
}
impl PartialEq for Decimal {
    #[verifier::external_body]
    fn eq(&self, other: &Decimal) -> (r: bool) ensures r == (self.v() == other.v()) { unimplemented!() } }
impl Eq for Decimal {}
impl PartialOrdSpecImpl for Decimal {
    open spec fn obeys_partial_cmp_spec() -> bool { true }
    open spec fn partial_cmp_spec(&self, other: &Decimal) -> Option<core::cmp::Ordering> {
        if self.v() < other.v() { Some(core::cmp::Ordering::Less) }
        else if self.v() == other.v() { Some(core::cmp::Ordering::Equal) }
        else { Some(core::cmp::Ordering::Greater) }
    }
}
impl PartialOrd for Decimal {
    #[verifier::external_body]
    fn partial_cmp(&self, other: &Decimal) -> (r: Option<core::cmp::Ordering>)
      ensures r == (if self.v() < other.v() { Some(core::cmp::Ordering::Less) }
        else if self.v() == other.v() { Some(core::cmp::Ordering::Equal) }
        else { Some(core::cmp::Ordering::Greater) })
    { unimplemented!() } }

} // verus!
