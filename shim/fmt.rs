// ---- shim/fmt.rs : format!/write!/writeln! as functions of their template and arguments (assumption A-fmt) ----
// R6s (units with `opt fmt-structured`) turns `format!(T, a, b)` into `verif_format` over the pieces of T and
// `writeln!(out, T, a, b)` into `out.verif_writeln` over the *arguments only*:
//   * a String built by format! is the concatenation of its pieces: literal text, `{}` arguments as shown by Display, and
//     arguments under a format spec (`{:<12}`, `{x:.2}`) as an uninterpreted function of the shown text (the spec itself - widths,
//     alignment, precision - is not modelled);
//   * a String written to line by line is viewed as the sequence of its *records*: one record per write!/writeln!, holding the shown
//     arguments in order (the literal text of the template - wording, punctuation - is not part of the record);
//   * Display of String/&str/char is the text itself, of an integer an uninterpreted function of the value, of a Decimal `dec_str(v)`.
verus! {

pub trait VerifShow { spec fn show(&self) -> Seq<char>; }
impl VerifShow for String { open spec fn show(&self) -> Seq<char> { self@ } }
impl VerifShow for str { open spec fn show(&self) -> Seq<char> { self@ } }
impl VerifShow for char { open spec fn show(&self) -> Seq<char> { seq![*self] } }
pub uninterp spec fn int_str(n: int) -> Seq<char>;
impl VerifShow for usize { open spec fn show(&self) -> Seq<char> { int_str(*self as int) } }
impl VerifShow for u16 { open spec fn show(&self) -> Seq<char> { int_str(*self as int) } }
impl VerifShow for u32 { open spec fn show(&self) -> Seq<char> { int_str(*self as int) } }
impl VerifShow for i32 { open spec fn show(&self) -> Seq<char> { int_str(*self as int) } }
impl VerifShow for Decimal { open spec fn show(&self) -> Seq<char> { Decimal::dec_str(self.v()) } }
impl<T: VerifShow + ?Sized> VerifShow for &T { open spec fn show(&self) -> Seq<char> { (**self).show() } }

pub enum FmtPiece { Lit(Seq<char>), Arg(Seq<char>), SpecArg(Seq<char>) }
/// an argument rendered under a format spec
pub uninterp spec fn fmt_spec(a: Seq<char>) -> Seq<char>;
pub open spec fn piece_str(p: FmtPiece) -> Seq<char> {
    match p { FmtPiece::Lit(s) => s, FmtPiece::Arg(s) => s, FmtPiece::SpecArg(s) => fmt_spec(s) }
}
pub open spec fn render(p: Seq<FmtPiece>) -> Seq<char> decreases p.len() {
    if p.len() == 0 { Seq::empty() } else { render(p.drop_last()) + piece_str(p.last()) }
}
pub proof fn lemma_render1(p: Seq<FmtPiece>) requires p.len() == 1 ensures render(p) == piece_str(p[0])
{ reveal_with_fuel(render, 3); assert(render(p) =~= piece_str(p[0])); }
pub proof fn lemma_render2(p: Seq<FmtPiece>) requires p.len() == 2 ensures render(p) == piece_str(p[0]) + piece_str(p[1])
{ reveal_with_fuel(render, 4); assert(p.drop_last().len() == 1); assert(p.drop_last()[0] == p[0]); lemma_render1(p.drop_last()); assert(render(p) =~= piece_str(p[0]) + piece_str(p[1])); }
pub proof fn lemma_render3(p: Seq<FmtPiece>) requires p.len() == 3 ensures render(p) == piece_str(p[0]) + piece_str(p[1]) + piece_str(p[2])
{ reveal_with_fuel(render, 2); assert(p.drop_last().len() == 2); assert(p.drop_last()[0] == p[0] && p.drop_last()[1] == p[1]); lemma_render2(p.drop_last()); }
#[verifier::external_body]
pub fn verif_format(Ghost(p): Ghost<Seq<FmtPiece>>) -> (r: String) ensures r@ == render(p) { unimplemented!() }

pub type Rec = Seq<Seq<char>>;
/// the records of a line-oriented text
pub uninterp spec fn recs(s: Seq<char>) -> Seq<Rec>;
pub trait VerifWrite {
    spec fn wv(&self) -> Seq<char>;
    fn verif_writeln(&mut self, Ghost(args): Ghost<Rec>) -> (r: Result<(), ()>)
        ensures recs(final(self).wv()) == recs(old(self).wv()).push(args);
}
impl VerifWrite for String {
    open spec fn wv(&self) -> Seq<char> { self@ }
    #[verifier::external_body]
    fn verif_writeln(&mut self, Ghost(args): Ghost<Rec>) -> (r: Result<(), ()>) { unimplemented!() }
}
/// an empty text has no records
pub broadcast axiom fn axiom_recs_empty() ensures #[trigger] recs(Seq::<char>::empty()) == Seq::<Rec>::empty();

/// R22: `x.trim_end()`, `x.to_string()` on string slices, `s + "lit"`
pub uninterp spec fn trim_end_of(s: Seq<char>) -> Seq<char>;
#[verifier::external_body]
pub fn verif_trim_end(s: &str) -> (r: &str) ensures r@ == trim_end_of(s@) { unimplemented!() }
#[verifier::external_body]
pub fn verif_str_to_string(s: &str) -> (r: String) ensures r@ == s@ { unimplemented!() }
#[verifier::external_body]
pub fn verif_str_add(a: String, b: &str) -> (r: String) ensures r@ == a@ + b@ { unimplemented!() }
/// the records of a text do not depend on trailing white space nor on a final line feed (records hold arguments, not layout)
pub broadcast axiom fn axiom_recs_trim(s: Seq<char>, t: Seq<char>)
    ensures #[trigger] recs(trim_end_of(s) + t) == recs(s) || !ws_only(t);
pub uninterp spec fn ws_only(t: Seq<char>) -> bool;
pub broadcast axiom fn axiom_ws_lf() ensures #[trigger] ws_only("\n"@);

/// R22 `v.dedup();` -> `verif_dedup(&mut v);`: removes consecutive repeated elements; here only 'some sequence no longer than the input' (an uninterpreted function of it)
pub uninterp spec fn dedup_of<T>(s: Seq<T>) -> Seq<T>;
#[verifier::external_body]
pub fn verif_dedup<T: PartialEq>(v: &mut Vec<T>)
    ensures final(v)@ == dedup_of(old(v)@), final(v)@.len() <= old(v)@.len()
{ unimplemented!() }

impl Decimal {
    /// truncation toward zero: a result within one unit of the value, on its side of zero (integrality is not stated)
    #[verifier::external_body]
    pub fn trunc(&self) -> (r: Decimal)
        ensures (self.v() >= 0real ==> 0real <= r.v() <= self.v() && self.v() - r.v() < 1real), (self.v() <= 0real ==> self.v() <= r.v() <= 0real && r.v() - self.v() < 1real)
    { unimplemented!() }
}
/// R22 `x.chars().collect()` into a Vec<char>: the characters of the text; String::with_capacity / String::push as on a Vec<char>
#[verifier::external_body]
pub fn verif_chars_vec<S: VerifShow + ?Sized>(s: &S) -> (r: Vec<char>)
    ensures r@ == s.show(), r@.len() <= usize::MAX / 8   // (a Vec<char> never holds more than isize::MAX / 4 elements)
{ unimplemented!() }
pub assume_specification[ String::with_capacity ](n: usize) -> (r: String) ensures r@ == Seq::<char>::empty();
/// R22 `x.split(c)` on a string with a char pattern: the pieces are an uninterpreted function of text and separator; `next()` yields them in order
pub uninterp spec fn split_pieces(s: Seq<char>, c: char) -> Seq<Seq<char>>;
#[verifier::external_body]
pub struct VerifSplit<'a> { _p: core::marker::PhantomData<&'a str> }
impl<'a> VerifSplit<'a> {
    pub uninterp spec fn rest(&self) -> Seq<Seq<char>>;
    #[verifier::external_body]
    pub fn next(&mut self) -> (r: Option<&'a str>)
        ensures (match r { Some(x) => old(self).rest().len() > 0 && x@ == old(self).rest()[0] && final(self).rest() == old(self).rest().skip(1),
                           None => old(self).rest().len() == 0 && final(self).rest() == old(self).rest() })
    { unimplemented!() }
}
#[verifier::external_body]
pub fn verif_split<'a, S: VerifShow + ?Sized>(s: &'a S, c: char) -> (r: VerifSplit<'a>) ensures r.rest() == split_pieces(s.show(), c) { unimplemented!() }

} // verus!
