// ---- shim/fmt.rs : format!/write!/writeln! as functions of their template and arguments (assumption A-fmt) ----
// R6s (units with `opt fmt-structured`) turns `format!(T, a, b)` into `verif_format` over the pieces of T and
// `writeln!(out, T, a, b)` into `out.verif_writeln` over the *arguments only*:
//   * a String built by format! is the concatenation of its pieces: literal text, `{}` arguments as shown by Display, and
//     arguments under a format spec (`{:<12}`, `{x:.2}`) as an uninterpreted function of the shown text (the spec itself - widths,
//     alignment, precision - is not modelled);
//   * a String written to line by line is viewed as the sequence of its *records*: one record per write!/writeln!, holding the shown
//     arguments in order (the literal text of the template - wording, punctuation - is not part of the record);
//   * Display of String/&str/char is the text itself, of an integer an uninterpreted function of the value, of a Decimal `dec_str(v)`.
verus! {

pub trait VerifShow { spec fn show(&self) -> Seq<char>; }
impl VerifShow for String { open spec fn show(&self) -> Seq<char> { self@ } }
impl VerifShow for str { open spec fn show(&self) -> Seq<char> { self@ } }
impl VerifShow for char { open spec fn show(&self) -> Seq<char> { seq![*self] } }
pub uninterp spec fn int_str(n: int) -> Seq<char>;
impl VerifShow for usize { open spec fn show(&self) -> Seq<char> { int_str(*self as int) } }
impl VerifShow for u16 { open spec fn show(&self) -> Seq<char> { int_str(*self as int) } }
impl VerifShow for u32 { open spec fn show(&self) -> Seq<char> { int_str(*self as int) } }
impl VerifShow for i32 { open spec fn show(&self) -> Seq<char> { int_str(*self as int) } }
impl VerifShow for Decimal { open spec fn show(&self) -> Seq<char> { Decimal::dec_str(self.v()) } }
impl<T: VerifShow + ?Sized> VerifShow for &T { open spec fn show(&self) -> Seq<char> { (**self).show() } }

pub enum FmtPiece { Lit(Seq<char>), Arg(Seq<char>), SpecArg(Seq<char>) }
/// an argument rendered under a format spec
pub uninterp spec fn fmt_spec(a: Seq<char>) -> Seq<char>;
pub open spec fn piece_str(p: FmtPiece) -> Seq<char> {
    match p { FmtPiece::Lit(s) => s, FmtPiece::Arg(s) => s, FmtPiece::SpecArg(s) => fmt_spec(s) }
}
pub open spec fn render(p: Seq<FmtPiece>) -> Seq<char> decreases p.len() {
    if p.len() == 0 { Seq::empty() } else { render(p.drop_last()) + piece_str(p.last()) }
}
#[verifier::external_body]
pub fn verif_format(Ghost(p): Ghost<Seq<FmtPiece>>) -> (r: String) ensures r@ == render(p) { unimplemented!() }

pub type Rec = Seq<Seq<char>>;
/// the records of a line-oriented text
pub uninterp spec fn recs(s: Seq<char>) -> Seq<Rec>;
pub trait VerifWrite {
    spec fn wv(&self) -> Seq<char>;
    fn verif_writeln(&mut self, Ghost(args): Ghost<Rec>) -> (r: Result<(), ()>)
        ensures recs(final(self).wv()) == recs(old(self).wv()).push(args);
}
impl VerifWrite for String {
    open spec fn wv(&self) -> Seq<char> { self@ }
    #[verifier::external_body]
    fn verif_writeln(&mut self, Ghost(args): Ghost<Rec>) -> (r: Result<(), ()>) { unimplemented!() }
}
/// an empty text has no records
pub broadcast axiom fn axiom_recs_empty() ensures #[trigger] recs(Seq::<char>::empty()) == Seq::<Rec>::empty();

/// R22: `x.trim_end()`, `x.to_string()` on string slices, `s + "lit"`
pub uninterp spec fn trim_end_of(s: Seq<char>) -> Seq<char>;
#[verifier::external_body]
pub fn verif_trim_end(s: &str) -> (r: &str) ensures r@ == trim_end_of(s@) { unimplemented!() }
#[verifier::external_body]
pub fn verif_str_to_string(s: &str) -> (r: String) ensures r@ == s@ { unimplemented!() }
#[verifier::external_body]
pub fn verif_str_add(a: String, b: &str) -> (r: String) ensures r@ == a@ + b@ { unimplemented!() }
/// the records of a text do not depend on trailing white space nor on a final line feed (records hold arguments, not layout)
pub broadcast axiom fn axiom_recs_trim(s: Seq<char>, t: Seq<char>)
    ensures #[trigger] recs(trim_end_of(s) + t) == recs(s) || !ws_only(t);
pub uninterp spec fn ws_only(t: Seq<char>) -> bool;
pub broadcast axiom fn axiom_ws_lf() ensures #[trigger] ws_only("\n"@);

/// R22 `v.dedup();` -> `verif_dedup(&mut v);`: removes consecutive repeated elements; here only 'some sequence no longer than the input' (an uninterpreted function of it)
pub uninterp spec fn dedup_of<T>(s: Seq<T>) -> Seq<T>;
#[verifier::external_body]
pub fn verif_dedup<T: PartialEq>(v: &mut Vec<T>)
    ensures final(v)@ == dedup_of(old(v)@), final(v)@.len() <= old(v)@.len()
{ unimplemented!() }

} // verus!
