// ---- shim/taxperiod.rs : cgt_core::TaxPeriod by contract. The contracts below are exactly what Kani unit K-taxyear proves of the
//      real TaxPeriod::{new, from_date, start_year} on the real chrono for every representable date (imported lemma, DESIGN 6 C07) ----
verus! {
/// the tax year a date belongs to: the year of the 6 April on or before it (the oracle of C07, also used by K-taxyear)
pub open spec fn tax_year_of(d: int) -> int {
    if month_of(d) < 4 || (month_of(d) == 4 && day_of(d) < 6) { year_of(d) - 1 } else { year_of(d) }
}
pub struct TaxPeriod(pub u16);
impl Copy for TaxPeriod {}
impl Clone for TaxPeriod { #[verifier::external_body] fn clone(&self) -> (r: Self) ensures r == *self { *self } }
impl TaxPeriod {
    #[verifier::external_body]
    pub fn new(start_year: u16) -> (r: Result<TaxPeriod, crate::error::CgtError>)
        ensures r is Ok <==> 1900 <= start_year <= 2100, r is Ok ==> r->Ok_0.0 == start_year
    { unimplemented!() }
    #[verifier::external_body]
    pub fn from_date(date: NaiveDate) -> (r: Result<TaxPeriod, crate::error::CgtError>)
        ensures r is Ok <==> 1900 <= tax_year_of(date.d()) <= 2100, r is Ok ==> r->Ok_0.0 as int == tax_year_of(date.d())
    { unimplemented!() }
    pub fn start_year(&self) -> (r: u16) ensures r == self.0 { self.0 }
}
} // verus!
