// ---- shim/core.rs : prelude shared by every unit (hand-written; assumptions A-std) ----
#![allow(unused_imports, unused_variables, dead_code, unused_mut, unused_parens, unused_braces, non_snake_case)]
use vstd::prelude::*;
use vstd::std_specs::ops::*;
use vstd::std_specs::cmp::*;
verus! {

/// R6: every `format!(..)` is replaced by this opaque string (message text is not decided).
#[verifier::external_body]
pub fn verif_fmt() -> String { unimplemented!() }

pub assume_specification<T: Copy>[ Option::<&T>::copied ](o: Option<&T>) -> (r: Option<T>)
    ensures r == (match o { Some(x) => Some(*x), None => None });
pub assume_specification<T: Default>[ core::mem::take::<T> ](dest: &mut T) -> (r: T)
    ensures r == *old(dest);

pub assume_specification<'a>[ <String as PartialEq<&'a str>>::eq ](a: &String, b: &&str) -> (r: bool) ensures r == (a@ == (*b)@);
pub assume_specification[ <String as PartialEq<str>>::eq ](a: &String, b: &str) -> (r: bool) ensures r == (a@ == b@);

pub assume_specification<T: Clone>[ <[T]>::to_vec ](s: &[T]) -> (r: Vec<T>)
    ensures r@.len() == s@.len();

/// R12: by-value iteration over a Vec, expressed as has_next / next_val
/// (`for x in v` == `let mut it = v.into_iter(); while let Some(x) = it.next()`).
#[verifier::external_body]
#[verifier::reject_recursive_types(T)]
pub struct VerifIntoIter<T> { _p: core::marker::PhantomData<T> }
impl<T> VerifIntoIter<T> {
    /// elements still to come / already yielded / the whole vector: all() == done() + rest() always
    pub uninterp spec fn rest(&self) -> Seq<T>;
    pub uninterp spec fn done(&self) -> Seq<T>;
    pub open spec fn all(&self) -> Seq<T> { self.done() + self.rest() }
    #[verifier::external_body]
    pub fn has_next(&self) -> (b: bool) ensures b == (self.rest().len() > 0) { unimplemented!() }
    #[verifier::external_body]
    pub fn next_val(&mut self) -> (x: T)
        requires old(self).rest().len() > 0
        ensures x == old(self).rest()[0], final(self).rest() == old(self).rest().skip(1), final(self).done() == old(self).done().push(x),
            final(self).all() == old(self).all()
    { unimplemented!() }
}
#[verifier::external_body]
pub fn verif_into_iter<T>(v: Vec<T>) -> (r: VerifIntoIter<T>) ensures r.rest() == v@, r.done() == Seq::<T>::empty(), r.all() == v@ { unimplemented!() }
#[verifier::external_body]
pub fn verif_into_iter_skip<T>(v: Vec<T>, k: usize) -> (r: VerifIntoIter<T>)
    ensures r.rest() == (if k <= v@.len() { v@.skip(k as int) } else { Seq::<T>::empty() }), r.done() == Seq::<T>::empty()
{ unimplemented!() }

} // verus!
