// ---- shim/map.rs : std::collections::HashMap with a Map view (assumption A-map) ----
verus! {

pub trait KeyView { type KV; spec fn kview(&self) -> Self::KV; }
impl KeyView for String { type KV = Seq<char>; open spec fn kview(&self) -> Seq<char> { self@ } }
impl KeyView for str { type KV = Seq<char>; open spec fn kview(&self) -> Seq<char> { self@ } }
impl<'a> KeyView for &'a str { type KV = Seq<char>; open spec fn kview(&self) -> Seq<char> { (*self)@ } }
impl KeyView for usize { type KV = usize; open spec fn kview(&self) -> usize { *self } }
impl KeyView for u16 { type KV = u16; open spec fn kview(&self) -> u16 { *self } }
impl KeyView for (NaiveDate, String) { type KV = (int, Seq<char>); open spec fn kview(&self) -> (int, Seq<char>) { (self.0.d(), self.1@) } }
impl KeyView for (String, NaiveDate) { type KV = (Seq<char>, int); open spec fn kview(&self) -> (Seq<char>, int) { (self.0@, self.1.d()) } }

#[verifier::external_body]
#[verifier::reject_recursive_types(K)]
#[verifier::reject_recursive_types(V)]
pub struct HashMap<K: KeyView, V> { _k: core::marker::PhantomData<(K, V)> }

#[verifier::external_body]
#[verifier::reject_recursive_types(K)]
#[verifier::reject_recursive_types(V)]
pub struct Entry<'a, K: KeyView, V> { _k: core::marker::PhantomData<&'a mut (K, V)> }

/// `ks` enumerates the domain of `m` exactly once (an arbitrary iteration order)
pub open spec fn is_walk<KV, V>(m: Map<KV, V>, ks: Seq<KV>) -> bool {
    &&& ks.no_duplicates()
    &&& forall|k: KV| #[trigger] m.contains_key(k) <==> ks.contains(k)
}

impl<K: KeyView, V> HashMap<K, V> {
    pub uninterp spec fn view(&self) -> Map<K::KV, V>;

    #[verifier::external_body]
    pub fn new() -> (r: Self) ensures r@ == Map::<K::KV, V>::empty() { unimplemented!() }

    #[verifier::external_body]
    pub fn get<'a, Q: KeyView<KV = K::KV> + ?Sized>(&'a self, k: &Q) -> (r: Option<&'a V>)
        ensures match r { Some(v) => self@.contains_key(k.kview()) && *v == self@[k.kview()], None => !self@.contains_key(k.kview()) }
    { unimplemented!() }

    #[verifier::external_body]
    pub fn contains_key<Q: KeyView<KV = K::KV> + ?Sized>(&self, k: &Q) -> (r: bool)
        ensures r == self@.contains_key(k.kview())
    { unimplemented!() }

    #[verifier::external_body]
    pub fn get_mut<'a, Q: KeyView<KV = K::KV> + ?Sized>(&'a mut self, k: &Q) -> (r: Option<&'a mut V>)
        ensures match r {
            Some(v) => old(self)@.contains_key(k.kview()) && *v == old(self)@[k.kview()] && final(self)@ == old(self)@.insert(k.kview(), *final(v)),
            None => !old(self)@.contains_key(k.kview()) && final(self)@ == old(self)@,
        }
    { unimplemented!() }

    #[verifier::external_body]
    pub fn insert(&mut self, k: K, v: V) -> (r: Option<V>)
        ensures final(self)@ == old(self)@.insert(k.kview(), v),
          match r { Some(o) => old(self)@.contains_key(k.kview()) && o == old(self)@[k.kview()], None => !old(self)@.contains_key(k.kview()) }
    { unimplemented!() }

    #[verifier::external_body]
    pub fn entry<'a>(&'a mut self, k: K) -> (r: Entry<'a, K, V>)
        ensures r.key() == k.kview(), r.map_before() == old(self)@, final(self)@ == r.map_final()
    { unimplemented!() }

    #[verifier::external_body]
    pub fn remove<Q: KeyView<KV = K::KV> + ?Sized>(&mut self, k: &Q) -> (r: Option<V>)
        ensures final(self)@ == old(self)@.remove(k.kview()),
          match r { Some(v) => old(self)@.contains_key(k.kview()) && v == old(self)@[k.kview()], None => !old(self)@.contains_key(k.kview()) }
    { unimplemented!() }

    #[verifier::external_body]
    pub fn clear(&mut self) ensures final(self)@ == Map::<K::KV, V>::empty() { unimplemented!() }

    #[verifier::external_body]
    pub fn len(&self) -> (r: usize) ensures r as nat == self@.dom().len(), self@.dom().finite() { unimplemented!() }
    #[verifier::external_body]
    pub fn is_empty(&self) -> (r: bool) ensures r == (self@ == Map::<K::KV, V>::empty()) { unimplemented!() }

    /// R11: iteration order is unspecified: the result follows *some* walk of the domain
    #[verifier::external_body]
    pub fn values<'a>(&'a self) -> (r: Vec<&'a V>)
        ensures exists|ks: Seq<K::KV>| #[trigger] is_walk(self@, ks) && ks.len() == r@.len()
            && forall|i: int| 0 <= i < r@.len() ==> *r@[i] == self@[ks[i]],
    { unimplemented!() }
    #[verifier::external_body]
    pub fn into_values(self) -> (r: Vec<V>)
        ensures exists|ks: Seq<K::KV>| #[trigger] is_walk(self@, ks) && ks.len() == r@.len()
            && forall|i: int| 0 <= i < r@.len() ==> r@[i] == self@[ks[i]],
    { unimplemented!() }
    #[verifier::external_body]
    pub fn into_iter(self) -> (r: Vec<(K, V)>)
        ensures exists|ks: Seq<K::KV>| #[trigger] is_walk(self@, ks) && ks.len() == r@.len()
            && forall|i: int| 0 <= i < r@.len() ==> r@[i].0.kview() == ks[i] && r@[i].1 == self@[ks[i]],
    { unimplemented!() }
}

impl<'a, K: KeyView, V> Entry<'a, K, V> {
    pub uninterp spec fn key(&self) -> K::KV;
    pub uninterp spec fn map_before(&self) -> Map<K::KV, V>;
    pub uninterp spec fn map_final(&self) -> Map<K::KV, V>;

    #[verifier::external_body]
    pub fn or_default(self) -> (r: &'a mut V) where V: Default
        ensures self.map_before().contains_key(self.key()) ==> *r == self.map_before()[self.key()],
                !self.map_before().contains_key(self.key()) ==> V::default.ensures((), *r),
                self.map_final() == self.map_before().insert(self.key(), *final(r))
    { unimplemented!() }
    /// R9: `or_insert_with(|| x)` is unfolded to its std definition `match entry { Vacant(e) => e.insert(x), Occupied(e) => e.into_mut() }`
    #[verifier::external_body]
    pub fn verif_is_vacant(&self) -> (b: bool) ensures b == !self.map_before().contains_key(self.key()) { unimplemented!() }
    #[verifier::external_body]
    pub fn verif_insert(self, v: V) -> (r: &'a mut V)
        requires !self.map_before().contains_key(self.key())
        ensures *r == v, self.map_final() == self.map_before().insert(self.key(), *final(r))
    { unimplemented!() }
    #[verifier::external_body]
    pub fn verif_into_mut(self) -> (r: &'a mut V)
        requires self.map_before().contains_key(self.key())
        ensures *r == self.map_before()[self.key()], self.map_final() == self.map_before().insert(self.key(), *final(r))
    { unimplemented!() }
    #[verifier::external_body]
    pub fn or_insert(self, default: V) -> (r: &'a mut V)
        ensures *r == (if self.map_before().contains_key(self.key()) { self.map_before()[self.key()] } else { default }),
                self.map_final() == self.map_before().insert(self.key(), *final(r))
    { unimplemented!() }
}

impl<K: KeyView, V> Default for HashMap<K, V> {
    #[verifier::external_body]
    fn default() -> (r: Self) ensures r@ == Map::<K::KV, V>::empty() { unimplemented!() }
}

} // verus!
