// ---- shim/serde.rs : the two serde traits as signatures only (A-ext) ----
verus! {
pub trait Serializer: Sized { type Ok; type Error; fn serialize_str(self, v: &str) -> Result<Self::Ok, Self::Error>; }
pub trait Serialize { fn serialize<S: Serializer>(&self, serializer: S) -> Result<S::Ok, S::Error>; }
} // verus!
