// ---- shim/serde.rs : the two serde traits as signatures only (A-ext) ----
verus! {
pub trait Serializer: Sized {
    type Ok; type Error;
    /// what a serializer makes of a string: an uninterpreted function of the serializer and the text
    spec fn ser_of(self, s: Seq<char>) -> Result<Self::Ok, Self::Error>;
    fn serialize_str(self, v: &str) -> (r: Result<Self::Ok, Self::Error>) ensures r == self.ser_of(v@);
}
pub trait Serialize { fn serialize<S: Serializer>(&self, serializer: S) -> Result<S::Ok, S::Error>; }
} // verus!
